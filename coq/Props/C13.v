(** C13 — Concurrent operations are merged without losing work.
    Model/C13.v transcribes [merge_view] / [record_rewrites] / [merge_wc_commit] (lib/src/repo.rs),
    [merge_ref_targets] with its ancestry-based pair removal (lib/src/refs.rs, on top of the
    shared [trivial_merge] / [flatten] / [simplify] of Model/Merge.v) and the reference updates
    of the rebase that follows.  Commits are modelled structurally (single-parent histories:
    a commit is its list of (change, description) down to the root; ancestry = suffix). *)
From Coq Require Import Lia.
From Verif Require Import Base.Prelude Model.Merge Model.C13 Proofs.C13 Proofs.C13Maps.

(** ** Working copies: the complete decision table of [merge_wc_commit]. *)
Theorem C13_wc_rule : forall s b o : option commit,
  merge_wc1 s b o =
  if wc_eqb s o then s
  else if wc_eqb s b then o
  else if wc_eqb o b then s
  else match s, o with
       | Some _, Some _ => s
       | _, _ => None
       end.
Proof. exact merge_wc1_spec. Qed.

(** A workspace changed by exactly one side gets that side's value; equal changes are kept. *)
Theorem C13_one_sided_wins_wc : forall s b o : option commit,
  (s = b -> merge_wc1 s b o = o) /\ (o = b -> merge_wc1 s b o = s).
Proof.
  intros s b o. rewrite merge_wc1_spec. split; intros ->.
  - destruct (wc_eqb b o) eqn:E; [now apply wc_eqb_iff in E|].
    now rewrite (eqb_refl_of _ wc_eqb_iff).
  - destruct (wc_eqb s b) eqn:E; [reflexivity|].
    now rewrite (eqb_refl_of _ wc_eqb_iff).
Qed.

Theorem C13_both_equal_kept_wc : forall s b : option commit, merge_wc1 s b s = s.
Proof. intros. rewrite merge_wc1_spec. now rewrite (eqb_refl_of _ wc_eqb_iff). Qed.

(** Both sides changed the workspace differently: if either side removed it, it is removed;
    otherwise our side's commit is kept (the other side's move is the one recorded loss the
    code accepts: "it doesn't make sense to resolve conflict based on ancestry"). *)
Theorem C13_workspace_removal : forall s b o : option commit,
  s <> o -> s <> b -> o <> b ->
  merge_wc1 s b o = match s, o with Some _, Some _ => s | _, _ => None end.
Proof.
  intros s b o H1 H2 H3. rewrite merge_wc1_spec.
  now rewrite !(eqb_false_of _ wc_eqb_iff) by assumption.
Qed.

(** ** Bookmarks (any targets, conflicted or not). *)
Theorem C13_one_sided_wins : forall l b r : target,
  merge_ref_targets b b r = r /\ merge_ref_targets l b b = l.
Proof.
  intros. split; [apply merge_ref_targets_left_unchanged|apply merge_ref_targets_right_unchanged].
Qed.

Theorem C13_both_equal_kept : forall l b : target, merge_ref_targets l b l = l.
Proof. exact merge_ref_targets_same. Qed.

(** Both sides moved a bookmark from [tb] (a commit, or absent) to different commits: the
    exact result — fast-forward to the descendant when [tb] is below the ancestor, otherwise
    the three-term conflict holding both. *)
Theorem C13_bookmark_moves : forall cl cr tb,
  cl <> cr -> tb <> Some cl -> tb <> Some cr ->
  merge_ref_targets [Some cl] [tb] [Some cr] =
  if suffixb cl cr then (if base_anc tb cl then [Some cr] else [Some cl; tb; Some cr])
  else if suffixb cr cl then (if base_anc tb cr then [Some cl] else [Some cl; tb; Some cr])
  else [Some cl; tb; Some cr].
Proof. exact merge_ref_targets_normal. Qed.

(** Different changes are never silently dropped: each side's target is among the result's
    terms, unless the result is the other side's target and that one is a descendant. *)
Theorem C13_conflict_not_drop : forall cl cr tb,
  cl <> cr -> tb <> Some cl -> tb <> Some cr ->
  let r := merge_ref_targets [Some cl] [tb] [Some cr] in
  (In (Some cl) r \/ (r = [Some cr] /\ suffixb cl cr = true /\ base_anc tb cl = true))
  /\ (In (Some cr) r \/ (r = [Some cl] /\ suffixb cr cl = true /\ base_anc tb cr = true)).
Proof. exact merge_ref_targets_normal_keeps. Qed.

(** ** Commits: every head of our side and every head the other side added is, after
    following the recorded rewrites, at or below a head of the reconciled view. *)
Theorem C13_commits_kept : forall s b o v,
  merge_views s b o = Some v ->
  forall h, In h (v_heads s) \/ (In h (v_heads o) /\ ~ In h (v_heads b)) ->
  exists f, In f (v_heads v)
            /\ suffixb (resolve (rewrites_of s b o) (S (length (rewrites_of s b o))) h) f = true.
Proof. exact merge_views_heads_kept. Qed.

(** A resolved bookmark follows whatever the reconciliation did to its commit (rewritten:
    the successor; abandoned: the parent; a rebased descendant: its rebased copy). *)
Theorem C13_bookmark_follows : forall (res : commit -> commit) c,
  update_bookmark res [Some c] = [Some (res c)].
Proof. exact update_bookmark_normal. Qed.

(** ** Whole views (flat two-way reconciliation), name by name.
    For views whose maps are in BTreeMap order ([sortedk]) and store no absent target: the
    reconciled view's value for EVERY workspace and EVERY bookmark is the per-name rule
    (unchanged by the other side: ours; otherwise [merge_wc1] / [merge_ref_targets], i.e. the
    theorems above apply to each name) followed by the reference update of the rebase. *)
Theorem C13_view_wc : forall s b o v name,
  merge_views s b o = Some v ->
  sortedk (v_wc s) -> sortedk (v_wc b) -> sortedk (v_wc o) ->
  lookup_n (v_wc v) name
  = option_map (update_wc (rewrites_of s b o)
                          (resolve (rewrites_of s b o) (S (length (rewrites_of s b o)))))
      (if wc_eqb (lookup_n (v_wc b) name) (lookup_n (v_wc o) name) then lookup_n (v_wc s) name
       else merge_wc1 (lookup_n (v_wc s) name) (lookup_n (v_wc b) name) (lookup_n (v_wc o) name)).
Proof. exact merge_views_wc. Qed.

Theorem C13_view_bookmarks : forall s b o v name,
  merge_views s b o = Some v ->
  sortedk (v_bookmarks s) -> sortedk (v_bookmarks b) -> sortedk (v_bookmarks o) ->
  no_absent (v_bookmarks b) -> no_absent (v_bookmarks o) ->
  tval name v
  = update_bookmark (resolve (rewrites_of s b o) (S (length (rewrites_of s b o))))
      (if target_eqb (tval name b) (tval name o) then tval name s
       else merge_ref_targets (tval name s) (tval name b) (tval name o)).
Proof. exact merge_views_bookmarks. Qed.

(** Following the recorded rewrites keeps a commit's change id unless the commit itself was
    abandoned (so refs "follow" to the same change). *)
Theorem C13_resolve_keeps_change : forall s b o e,
  lookup_rw (rewrites_of s b o) e <> Some Abandoned ->
  change_of (resolve (rewrites_of s b o) (S (length (rewrites_of s b o))) e) = change_of e.
Proof. exact resolve_change. Qed.

(** The model's own reconciled view passes the checker.  Full statement (all six tests of the
    flat two-way checker); proved so far: the workspace test, for every name. *)
Definition pair_checker (s b o r : view) : bool :=
  kept_changes s b o r && kept_changes o b s r
  && removed_hidden s b r && removed_hidden o b r
  && forallb (bookmark_ok s b o r)
       (union_keys (map fst (v_bookmarks s)) (union_keys (map fst (v_bookmarks b))
          (union_keys (map fst (v_bookmarks o)) (map fst (v_bookmarks r)))))
  && forallb (wc_ok s b o r)
       (union_keys (map fst (v_wc s)) (union_keys (map fst (v_wc b))
          (union_keys (map fst (v_wc o)) (map fst (v_wc r))))).

Definition C13_model_passes_checker_full : Prop := forall s b o v,
  merge_views s b o = Some v ->
  sortedk (v_wc s) -> sortedk (v_wc b) -> sortedk (v_wc o) ->
  sortedk (v_bookmarks s) -> sortedk (v_bookmarks b) -> sortedk (v_bookmarks o) ->
  no_absent (v_bookmarks b) -> no_absent (v_bookmarks o) ->
  pair_checker s b o v = true.

Theorem C13_model_passes_checker_partial : forall s b o v,
  merge_views s b o = Some v ->
  sortedk (v_wc s) -> sortedk (v_wc b) -> sortedk (v_wc o) ->
  forall names, forallb (wc_ok s b o v) names = true.
Proof.
  intros s b o v H Hs Hb Ho names. apply forallb_forall. intros name _.
  now apply model_passes_wc_check.
Qed.

(** ** Order of reconciliation. *)
Theorem C13_order_wc : forall s b o : option commit,
  merge_wc1 s b o = merge_wc1 o b s
  \/ (exists cs co, s = Some cs /\ o = Some co /\ cs <> co /\ s <> b /\ o <> b
                    /\ merge_wc1 s b o = s /\ merge_wc1 o b s = o).
Proof. exact merge_wc1_sym. Qed.

Theorem C13_order_bookmark : forall cl cr tb,
  cl <> cr -> tb <> Some cl -> tb <> Some cr ->
  merge_ref_targets [Some cl] [tb] [Some cr] = merge_ref_targets [Some cr] [tb] [Some cl]
  \/ (merge_ref_targets [Some cl] [tb] [Some cr] = [Some cl; tb; Some cr]
      /\ merge_ref_targets [Some cr] [tb] [Some cl] = [Some cr; tb; Some cl]).
Proof. exact merge_ref_targets_normal_sym. Qed.

(** ** Meaning of the checker run on the implementation's reconciled view. *)
Theorem C13_checker_hidden : forall side base merged,
  removed_hidden side base merged = true <->
  forall c, visible (v_heads base) c = true -> visible (v_heads side) c = false ->
            visible (v_heads merged) c = false.
Proof. exact removed_hidden_spec. Qed.

(** Over a whole operation DAG: what the "nothing rewritten re-appears" test means. *)
Theorem C13_checker_dag_hidden : forall dag heads merged,
  dag_removed_hidden dag heads merged = true <->
  forall h a c, In h heads -> In a (op_ancestors dag [h]) ->
    visible (v_heads (view_at dag a)) c = true ->
    visible (v_heads (view_at dag h)) c = false ->
    visible (v_heads merged) c = true ->
    kept_in_place dag heads merged c = true \/ under_conflicted_bookmark merged c = true.
Proof. exact dag_removed_hidden_spec. Qed.

(** ... where [kept_in_place] means: below a visible, removed, divergently rewritten commit. *)
Theorem C13_kept_in_place_spec : forall dag heads merged c,
  kept_in_place dag heads merged c = true <->
  exists d, In d (ancs (v_heads merged)) /\ suffixb c d = true /\ divergent_in merged d = true
            /\ exists h, In h heads /\ removed_on_line dag h d = true.
Proof.
  intros. unfold kept_in_place. rewrite existsb_exists. split.
  - intros (d & Hd & H). apply andb_true_iff in H. destruct H as [H H3].
    apply andb_true_iff in H. destruct H as [H1 H2]. apply existsb_exists in H3.
    destruct H3 as (h & Hh & Hr). exists d. repeat split; auto. exists h. auto.
  - intros (d & Hd & H1 & H2 & h & Hh & Hr). exists d. split; [assumption|].
    rewrite H1, H2. cbn. apply existsb_exists. exists h. auto.
Qed.

(** [merge_operations] on two heads with one closest common ancestor is the three-way
    [merge_views] with that ancestor as base (further heads are merged relative to the closest
    common ancestors of everything merged so far: see [merge_ops]). *)
Theorem C13_merge_two : forall dag i j a ni nj na fuel,
  nth_error dag i = Some ni -> nth_error dag j = Some nj -> nth_error dag a = Some na ->
  cca dag [i] [j] = [a] ->
  merge_ops (S fuel) dag [i; j]
  = match merge_views (n_view ni) (n_view na) (n_view nj) with Some v => MOk v | None => MSkip end.
Proof. exact merge_ops_two. Qed.

Theorem C13_visible_spec : forall heads c,
  visible heads c = true <-> exists h, In h heads /\ suffixb c h = true.
Proof. exact visible_iff. Qed.

Check C13_wc_rule.
Check C13_bookmark_moves.

(** Non-vacuity: stack 1 <- 2, bookmark 0 on commit 1.  Our side rewrites commit 1 (its child
    is rebased) and moves the bookmark to the child; the other side adds commit 3 on the child
    and deletes workspace 1.  The reconciliation rebases commit 3, keeps the bookmark move,
    removes the workspace. *)
Example C13_nonvacuous :
  let c1 := [(1, 1)]%N in let c2 := [(2, 2); (1, 1)]%N in
  let c1' := [(1, 9)]%N in let c2' := [(2, 2); (1, 9)]%N in
  let c3 := [(3, 3); (2, 2); (1, 1)]%N in
  let base := mk_view [c2] [(0%N, [Some c1])] [(0%N, c2); (1%N, c1)] in
  let ours := mk_view [c2'] [(0%N, [Some c2'])] [(0%N, c2'); (1%N, c1')] in
  let theirs := mk_view [c3] [(0%N, [Some c1])] [(0%N, c2)] in
  merge_views ours base theirs
  = Some (mk_view [[(3, 3); (2, 2); (1, 9)]%N] [(0%N, [Some c2'])] [(0%N, c2')])
  /\ merge_ref_targets [Some c1] [None] [Some c2] = [Some c2]
  /\ merge_ref_targets [Some c2] [Some c1] [Some [(7, 7); (1, 1)]%N]
     = [Some c2; Some c1; Some [(7, 7); (1, 1)]%N].
Proof. vm_compute. repeat split. Qed.

(** The nested-ancestor shape (O -> A2; O -> B1 -> B2; B1 -> C2): merging A2, B2, C2 takes B1 as
    base for the third head, so a bookmark created by B1 and moved by B2 is B2's, unconflicted. *)
Example C13_nested_ancestor :
  let x := [(4, 4)]%N in let y := [(5, 5)]%N in
  let vo := mk_view [[(1, 1)]%N] [] [] in
  let vb1 := mk_view [[(1, 1)]%N; x] [(0%N, [Some x])] [] in
  let va2 := mk_view [[(1, 1)]%N; [(3, 3)]%N] [] [] in
  let vb2 := mk_view [[(1, 1)]%N; x; y] [(0%N, [Some y])] [] in
  let vc2 := mk_view [[(6, 6); (1, 1)]%N; x] [(0%N, [Some x])] [] in
  let dag := [mk_node [] 0 vo; mk_node [0%nat] 2 vb1; mk_node [0%nat] 1 va2;
              mk_node [1%nat] 3 vb2; mk_node [1%nat] 4 vc2] in
  cca dag [2%nat; 3%nat] [4%nat] = [1%nat]
  /\ cca dag [2%nat] [4%nat] = [0%nat]
  /\ merge_ops 6 dag [2%nat; 3%nat; 4%nat]
     = MOk (mk_view [[(3, 3)]%N; x; [(6, 6); (1, 1)]%N; y] [(0%N, [Some y])] []).
Proof. vm_compute. repeat split. Qed.

Print Assumptions C13_wc_rule.
Print Assumptions C13_checker_dag_hidden.
Print Assumptions C13_view_bookmarks.
Print Assumptions C13_model_passes_checker_partial.
Print Assumptions C13_bookmark_moves.
Print Assumptions C13_conflict_not_drop.
Print Assumptions C13_commits_kept.
Print Assumptions C13_order_bookmark.
