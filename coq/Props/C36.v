(** C36 - Expression parsers never crash (P-part).
    What is proved here is the part of the statement that is logic jj owns:
      * the alias expansion shared by the three languages (lib/src/dsl_util.rs:806-965, model
        Model/C36.v) terminates for every alias map and every expression - with an explicit fuel
        bound - and returns either an error or a tree without any alias reference;
      * the escape match of StringLiteralParser::parse (dsl_util.rs:448-462, model Model/C35.v)
        never reaches its two panic arms on text accepted by the string_escape rule.
    Panics and stack use inside the pest-generated parsers and the AST builders are Rust runtime
    behaviour that no Gallina model exhibits: that part is FUZZING (harness c36, child process,
    catch_unwind, 8 MiB stack, watchdog) and is labelled so in props/C36.json. *)
From Verif Require Import Base.Prelude Model.C36 Model.C35 Proofs.C36 Proofs.C35.

(** Alias expansion terminates: for EVERY alias map (any number of symbol, pattern and function
    aliases, recursive or not), every outermost locals and every expression, the stated fuel is
    enough - the result is Ok or Err, never OutOfFuel. *)
Theorem C36_alias_terminates : forall (am : aliases) (outer : locals) (e : expr),
  expand_aliases am outer e <> OutOfFuel.
Proof. exact expand_aliases_terminates. Qed.

(** The general form: from any reachable expander state (a stack of pairwise different alias ids
    of the map) the fuel [depth e + (#ids - |stack|) * (max body depth + 1)] suffices. *)
Theorem C36_fuel_bound : forall am outer fuel st e,
  stack_ok am st ->
  (depth e + (length (all_ids am) - length st) * S (max_defn_depth am) <= fuel)%nat ->
  expand am outer fuel st e <> OutOfFuel.
Proof. exact expand_not_oof. Qed.

(** The result does not depend on the fuel once it is not exhausted. *)
Theorem C36_fuel_irrelevant : forall am outer extra fuel st e,
  expand am outer fuel st e <> OutOfFuel ->
  expand am outer (extra + fuel) st e = expand am outer fuel st e.
Proof. exact expand_more_fuel. Qed.

(** Ok means fully expanded: no identifier, pattern or call that names an alias is left (so a
    reference cycle reachable from the expression can only end in an error: recursion => Err). *)
Theorem C36_alias_result : forall am outer e,
  values_expanded am outer ->
  (exists r, expand_aliases am outer e = Ok r /\ expanded_b am r = true)
  \/ (exists er, expand_aliases am outer e = Err er).
Proof. exact expand_aliases_result. Qed.

(** A reported recursion names an alias that really is in the map. *)
Theorem C36_recursive_error_names_alias : forall am outer fuel st e id,
  expand am outer fuel st e = Err (ErrRecursive id) -> In id (all_ids am).
Proof. exact recursive_error_names_alias. Qed.

(** The smallest cycle: A = A. *)
Theorem C36_self_reference_is_an_error : forall am n,
  assoc n (am_symbols am) = Some (Some (EIdent n)) ->
  expand_aliases am [] (EIdent n) = Err (ErrRecursive (ASymbol n)).
Proof. exact self_reference_is_an_error. Qed.

(** Every text the string_escape rule accepts (after the backslash) hits a handled arm of
    StringLiteralParser::parse; hence parsing a string literal never reaches a panic arm. *)
Theorem C36_unescape_total : forall (l body rest : str),
  grammar_escape_body l = Some (body, rest) -> unescape_arm body <> None.
Proof. exact unescape_total. Qed.

Theorem C36_string_literal_never_panics : forall l : str, parse_string_literal l <> PPanic.
Proof. exact string_literal_never_panics. Qed.

Check C36_alias_terminates : forall (am : aliases) (outer : locals) (e : expr),
  expand_aliases am outer e <> OutOfFuel.

(** Non-vacuity: a map with a mutual recursion, an arity overload, a pattern alias and a
    definition that does not parse; one input expands, the others fail in the three ways. *)
Definition demo_map : aliases :=
  mk_aliases
    [(1, Some (EIdent 2)); (2, Some (EOp [EIdent 1; ELeaf])); (3, Some (ECall 10 [EIdent 9] [])); (4, None)]%N
    [(20, (30, Some (EOp [EIdent 30; EIdent 3])))]%N
    [(10, [([], Some ELeaf); ([30; 31], Some (EOp [EIdent 31; EIdent 30]))])]%N.

Example C36_nonvacuous :
  expand_aliases demo_map [] (ECall 10 [EIdent 7; EIdent 8] [])
  = Ok (EExpanded (AFunction 10 [30; 31])
          (EOp [EExpanded (AParam 31) (EIdent 8); EExpanded (AParam 30) (EIdent 7)]))%N
  /\ expand_aliases demo_map [] (EIdent 1) = Err (ErrRecursive (ASymbol 1))
  /\ expand_aliases demo_map [] (EIdent 3) = Err ErrArgs
  /\ expand_aliases demo_map [] (EIdent 4) = Err ErrSyntax.
Proof. repeat split; vm_compute; reflexivity. Qed.

(** Known finding deep-nesting-stack-overflow (documentation; a stack overflow is Rust runtime
    behaviour, no Gallina lemma can witness it).  Observed on the unchanged tree, harness build,
    child thread with a fixed 8 MiB stack: every linear-time deep form parses up to depth 1000;
    fileset 'f(' towers and all template towers overflow the stack at depth 3000, the other forms
    (fileset / revset operator and pattern chains, fileset parentheses) at depth 10000; real CLI:
    jj file list '$(python3 -c 'print('('*5000+'a'+')'*5000)')' aborts with
    'thread 'main' has overflowed its stack'.  The check classifies exactly: overflow and nesting
    >= DEEP = 500 -> known finding; anything else that is not Ok / Err -> violation. *)
Example C36_deep_nesting_observed :
  (  C36.knownb (CDeep 1 [40] [97] [41] 10000 5) = true        (* ((((...a...)))) depth 10000, overflow *)
  /\ C36.knownb (CDeep 1 [40] [97] [41] 300 5) = false     (* an overflow at depth 300 is a violation *)
  /\ C36.okb (CDeep 1 [40] [97] [41] 300 5) = false
  /\ C36.knownb (CDeep 2 [45; 40] [97] [41] 10000 2) = false (* a panic is never demoted *)
  /\ C36.knownb (CDeep 0 [126] [97] [] 10000 4) = false      (* nor a timeout *)
  /\ nest_depth (deep_text [120; 58] [97] [] 700) = 700
  /\ C36.okb (CDeep 0 [126] [97] [] 1000 0) = true)%N.
Proof. repeat split; vm_compute; reflexivity. Qed.

Print Assumptions C36_alias_terminates.
Print Assumptions C36_alias_result.
Print Assumptions C36_unescape_total.
