(** C29 — Line-ending conversion round-trips normalized content.
    Model/C29.v transcribes lib/src/eol.rs (is_binary, probe_for_binary with its window and the
    cut-CR rule, convert_eol line by line, the three modes). Contents are arbitrary byte lists
    of any length. The theorems are stated for the source's window length
    [probe_limit = EOL_PROBE_LIMIT_BASE * 2 ^ EOL_PROBE_LIMIT_SHIFT] (scraped from the Rust
    source on every run) and, more generally, for every window length L > 0. *)
From Verif Require Import Base.Prelude Gen.Tables Model.C29 Proofs.C29.
Local Open Scope N_scope.

(** Stored content without CRLF that jj classifies as text: checkout (input-output) writes it
    with CRLF endings only — every LF preceded by CR — and the snapshot of what was written gives
    back the identical stored content. *)
Theorem C29_text_roundtrip : forall c : bytes,
  has_crlf c = false -> probe probe_limit c = false ->
  for_snapshot probe_limit MInputOutput (for_update probe_limit MInputOutput c) = c
  /\ lone_lf false (for_update probe_limit MInputOutput c) = false.
Proof. exact (text_roundtrip probe_limit probe_limit_pos). Qed.

(** Content classified as binary passes through unchanged in both directions, in every mode. *)
Theorem C29_binary_passthrough : forall (c : bytes) (m : mode),
  probe probe_limit c = true ->
  for_update probe_limit m c = c /\ for_snapshot probe_limit m c = c.
Proof. exact (binary_passthrough probe_limit). Qed.

(** Input-only (and none): checkout writes stored bytes verbatim; none: snapshot too. *)
Theorem C29_input_only_verbatim : forall c : bytes,
  for_update probe_limit MInput c = c /\ for_update probe_limit MNone c = c
  /\ for_snapshot probe_limit MNone c = c.
Proof. exact (input_only_verbatim probe_limit). Qed.

(** The probe-boundary lemma: the CRLF form of CRLF-free text is again classified as text,
    although its window covers a shorter prefix of the original and may cut an inserted CR. *)
Theorem C29_boundary : forall c : bytes,
  has_crlf c = false -> probe probe_limit c = false ->
  probe probe_limit (convert_eol TCrlf c) = false.
Proof. exact (boundary probe_limit probe_limit_pos). Qed.

(** Whatever the classification and the mode, CRLF-free stored content survives
    checkout + snapshot. *)
Theorem C29_roundtrip_all : forall (c : bytes) (m : mode),
  has_crlf c = false -> for_snapshot probe_limit m (for_update probe_limit m c) = c.
Proof. exact (roundtrip_all probe_limit probe_limit_pos). Qed.

(** The same four facts for every window length L > 0 (nothing depends on the value 8192). *)
Theorem C29_any_window : forall L : nat, L <> O ->
  (forall c, has_crlf c = false -> probe L c = false ->
     probe L (convert_eol TCrlf c) = false
     /\ for_snapshot L MInputOutput (for_update L MInputOutput c) = c
     /\ lone_lf false (for_update L MInputOutput c) = false)
  /\ (forall c m, probe L c = true -> for_update L m c = c /\ for_snapshot L m c = c)
  /\ (forall c m, has_crlf c = false -> for_snapshot L m (for_update L m c) = c).
Proof.
  intros L HL. split; [|split].
  - intros c Hn Hp. split; [exact (boundary L HL c Hn Hp)|exact (text_roundtrip L HL c Hn Hp)].
  - intros c m. exact (binary_passthrough L c m).
  - intros c m. exact (roundtrip_all L HL c m).
Qed.

(** The line-wise conversions as coded are the byte-wise functions. *)
Theorem C29_to_lf_bytewise : forall d : bytes, convert_eol TLf d = lf_bw d.
Proof. exact convert_lf_bw. Qed.
Theorem C29_to_crlf_bytewise : forall c : bytes,
  has_crlf c = false -> convert_eol TCrlf c = expand c.
Proof. exact convert_crlf_expand. Qed.

(** The checker run on implementation outputs accepts exactly-the-model outputs. *)
Theorem C29_checker_accepts_model : forall (m : mode) (c : bytes),
  okb (mk_case m KStored c (for_update probe_limit m c)
               (for_snapshot probe_limit m (for_update probe_limit m c)) false) = true
  /\ okb (mk_case m KDisk c c (for_snapshot probe_limit m c) false) = true.
Proof.
  intros m c. split.
  - exact (okb_model_stored probe_limit probe_limit_pos m c).
  - exact (okb_model_disk probe_limit m c).
Qed.

Check C29_text_roundtrip : forall c : bytes,
  has_crlf c = false -> probe probe_limit c = false ->
  for_snapshot probe_limit MInputOutput (for_update probe_limit MInputOutput c) = c
  /\ lone_lf false (for_update probe_limit MInputOutput c) = false.

(** Non-vacuity: "a\nb\rc" is ... binary (lone CR); "a\nb\n\nc" is text and expands; the window
    constant is 8192. *)
Example C29_nonvacuous :
  probe_limit_N = 8192
  /\ has_crlf [97; 10; 98; 10; 10; 99] = false
  /\ probe probe_limit [97; 10; 98; 10; 10; 99] = false
  /\ for_update probe_limit MInputOutput [97; 10; 98; 10; 10; 99]
     = [97; 13; 10; 98; 13; 10; 13; 10; 99]
  /\ probe probe_limit [97; 10; 98; 13; 99] = true
  /\ for_snapshot probe_limit MInput [97; 13; 10; 98] = [97; 10; 98].
Proof. vm_compute. repeat split; reflexivity. Qed.

Print Assumptions C29_text_roundtrip.
Print Assumptions C29_any_window.
Print Assumptions C29_checker_accepts_model.
