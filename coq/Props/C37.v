(** C37 — Bisection finds the first bad commit.
    Model/C37.v transcribes lib/src/bisect.rs: [Bisector::new] (range heads assumed bad),
    [candidates] = range & (heads(good)..roots(bad)) ~ bad ~ skipped, [next_step] = element
    len/2 of the descending candidate list (revset_engine.rs:1053 Bisect) or the final
    result with the possibly-bad walk through skipped parents. [bisect g (ancsets g) R oracle]
    runs a whole bisection of the position set [R] against an evaluation function and returns
    (commits asked in order, result).

    Truth is a predicate [isbad]; "consistent with history" is [monotone] (inside the range,
    every descendant of a bad commit is bad) and the API's own assumption that the range
    heads are bad. [first_bad_p] = bad commit of the range with no bad strict ancestor in the
    range (an "earliest bad commit").

    KNOWN FINDING F3 (stays): with two or more independent first bad commits only some of
    them are reported ([C37_multi_culprit_refuted]); what is reported is still always a
    genuine first bad commit ([C37_reports_first_bad]), and with exactly one first bad commit
    the result is exactly that commit ([C37_single_culprit]). *)
From Verif Require Import Base.Prelude Base.DagI Model.C37 Proofs.C37.
Local Open Scope nat_scope.

Section Statements.
  Variable g : graph.
  Hypothesis W : wf g.
  Variable R : list nat.
  Notation t := (ancsets g).

  (** Whatever the answers are (good, bad, skip, inconsistent): no commit is asked twice,
      only commits of the range are asked, never one of its heads. *)
  Theorem C37_no_repeat : forall (ev : nat -> evaluation) tr res,
    bisect g t R ev = Some (tr, res) ->
    NoDup tr /\ forall x, In x tr -> In x R /\ ~ In x (heads_of g (canon g R)).
  Proof. exact (bisect_no_repeat g W R). Qed.

  (** Whatever the answers are: bisection ends within the stated fuel (the possibly-bad walk
      takes exactly its path-count fuel), every answer - good, bad or skip - strictly
      shrinks the candidate set, and so at most as many questions are asked as there were
      candidates at the start. *)
  Theorem C37_terminates : forall (ev : nat -> evaluation),
    (exists r, bisect g t R ev = Some r) /\
    (forall st x e, next_commit g t R st = Some x ->
       length (candidates g t R (mark st x e)) < length (candidates g t R st)) /\
    (forall tr res, bisect g t R ev = Some (tr, res) ->
       length tr <= length (candidates g t R (init_state g t R))).
  Proof. exact (terminates_thm g W R). Qed.

  Section Truth.
    Variables isbad skipb : nat -> bool.
    Hypothesis monotone :
      forall x y, In x R -> In y R -> isbad x = true -> anc g x y -> isbad y = true.
    Hypothesis heads_bad : forall h, In h (heads_of g (canon g R)) -> isbad h = true.

    (** With or without skips: every reported commit is bad and in the range, and each of its
        parents inside the range is good — or was skipped, and then it is listed as possibly
        bad (no false result). *)
    Theorem C37_sound : forall tr res,
      bisect g t R (oracle isbad skipb) = Some (tr, res) ->
      forall r, In r (reported res) ->
        In r R /\ isbad r = true /\
        forall p, In p (parents g r) -> In p R ->
          isbad p = false \/ (skipb p = true /\ In p (possibly res)).
    Proof. exact (bisect_sound g W R isbad skipb monotone heads_bad). Qed.

    Hypothesis no_skips : forall x, skipb x = false.

    (** Without skips the result is [Found] (or [Indeterminate] for an empty range) and every
        reported commit is an earliest bad commit of the range — also when there are
        several of them. *)
    Theorem C37_reports_first_bad : forall tr res,
      bisect g t R (oracle isbad skipb) = Some (tr, res) ->
      (res = Indeterminate \/ exists l, res = Found l) /\
      forall r, In r (reported res) -> first_bad_p g R isbad r.
    Proof. exact (bisect_reports_first_bad g W R isbad skipb monotone heads_bad no_skips). Qed.

    (** Exactly one earliest bad commit (equivalently: the bad commits of the range are the
        descendants of one commit) => the result is exactly that commit. *)
    Theorem C37_single_culprit : forall tr res c,
      bisect g t R (oracle isbad skipb) = Some (tr, res) ->
      first_bad_p g R isbad c -> (forall c', first_bad_p g R isbad c' -> c' = c) ->
      res = Found [c].
    Proof. exact (bisect_single_culprit g W R isbad skipb monotone heads_bad no_skips). Qed.
  End Truth.

  (** A linear range of n commits (each one's only parent is the previous one of the range;
      what lies below the range is arbitrary): at most ceil(log2(n+1)) questions, for any
      good/bad answers. *)
  Theorem C37_linear_log2 : forall (ev : nat -> evaluation) tr res,
    chain_b g (canon g R) = true -> (forall x, ev x <> Skip) ->
    bisect g t R ev = Some (tr, res) ->
    length tr <= Nat.log2_up (S (length (canon g R))).
  Proof. exact (linear_log2_thm g W R). Qed.

  (** The checker applied to the implementation's trace and result: acceptance means the
      recorded run has the stated properties (for the case's truth [bad] / [skip] lists). *)
  Theorem C37_checker_sound : forall bad skip trace r,
    run_ok g t R bad skip trace r = true -> run_holds g R bad skip trace r.
  Proof. exact (checker_sound_thm g R). Qed.
End Statements.

(** F3, the witness: A - B, A - C, D = merge(B, C) above the root; bad = {B, C, D} is
    monotone and contains the head D; B and C are both first bad commits; the bisection asks
    B and A and reports only B. The model's run is what lib/src/bisect.rs does (replayed on
    the implementation by the exhaustive part of the correspondence run, index 0). *)
Definition F3_graph : graph := [[]; [0]; [1]; [1]; [2; 3]].
Definition F3_range : list nat := [1; 2; 3; 4].
Definition F3_bad : list nat := [2; 3; 4].
Lemma C37_multi_culprit_refuted :
  wfb F3_graph = true /\
  precond_b F3_graph (ancsets F3_graph) F3_range F3_bad = true /\
  first_bad F3_graph (ancsets F3_graph) F3_range F3_bad = [3; 2] /\
  bisect F3_graph (ancsets F3_graph) F3_range (oracle_of F3_bad []) = Some ([2; 1], Found [2]) /\
  known_F3 (mk_case F3_graph F3_range [mk_run F3_bad [] [2; 1] (Found [2])] false) = true.
Proof. vm_compute. repeat split. Qed.

Check C37_single_culprit : forall (g : graph), wf g -> forall (R : list nat)
    (isbad skipb : nat -> bool),
  (forall x y, In x R -> In y R -> isbad x = true -> anc g x y -> isbad y = true) ->
  (forall h, In h (heads_of g (canon g R)) -> isbad h = true) ->
  (forall x, skipb x = false) ->
  forall tr res c,
  bisect g (ancsets g) R (oracle isbad skipb) = Some (tr, res) ->
  first_bad_p g R isbad c -> (forall c', first_bad_p g R isbad c' -> c' = c) ->
  res = Found [c].

(** Hypotheses are satisfiable and the run is not trivial: 8 commits in a row below a side
    branch, first bad commit 5, one skipped commit. *)
Example C37_nonvacuous :
  let g := [[]; [0]; [1]; [2]; [3]; [4]; [5]; [6]; [2]; [7; 8]] in
  let R := [1; 2; 3; 4; 5; 6; 7; 8; 9] in
  wfb g = true /\
  precond_b g (ancsets g) R [5; 6; 7; 9] = true /\
  bisect g (ancsets g) R (oracle_of [5; 6; 7; 9] []) = Some ([4; 6; 5], Found [5]) /\
  bisect g (ancsets g) R (oracle_of [5; 6; 7; 9] [4]) = Some ([4; 5; 2; 3], FoundDespiteSkips [5] [4]).
Proof. vm_compute. repeat split. Qed.

Print Assumptions C37_no_repeat.
Print Assumptions C37_sound.
Print Assumptions C37_single_culprit.
Print Assumptions C37_linear_log2.
