(** C03 — Content diffs partition their inputs deterministically.
    Model/Diff.v transcribes core/src/diff.rs: tokenizers, comparators (as normalisers),
    unchanged regions from matchings, n-way intersection, compaction, refinement and the
    hunk iterator (Layer A), and the histogram LCS (Layer B, [M_hist]). *)
From Coq Require Import Lia Arith Sorted.
From Verif Require Import Base.Prelude Model.Diff Model.C03
     Proofs.DiffBase Proofs.DiffA Proofs.DiffA2 Proofs.DiffA3 Proofs.DiffA4 Proofs.DiffThm Proofs.C03.

(** Layer A: for ANY matching function [M] whose results are in range and strictly
    increasing in both coordinates ([valid_matching], decided by [valid_matchingb]), every
    number of inputs >= 1, every tokenizer / comparator, every number of refinement steps. *)
Section LayerA.
  Variable M : list bytes -> list bytes -> list (nat * nat).
  Hypothesis M_valid : forall a b,
    Forall (fun p => fst p < length a /\ snd p < length b) (M a b)
    /\ StronglySorted (fun p q => fst p < fst q /\ snd p < snd q) (M a b).

  (** Concatenating each input's slices over all hunks rebuilds that input; every hunk has
      one slice per input. *)
  Theorem C03_partition : forall (s : steps) (inputs : list bytes),
    inputs <> [] -> s <> [] ->
    let hs := hunks (run_steps M s inputs) in
    (forall h, In h hs -> length (snd h) = length inputs)
    /\ forall i, i < length inputs ->
         concat (map (fun h => nth i (contents inputs (snd h)) []) hs) = nth i inputs [].
  Proof.
    intros s inputs Hi Hs hs. destruct (partition_thm M M_valid s inputs Hi Hs) as (A & B).
    split; [exact A|]. intros i Hlt. rewrite <- side_concat_contents by assumption. now apply B.
  Qed.

  (** No hunk is empty on every side. *)
  Theorem C03_no_empty_hunk : forall (s : steps) (inputs : list bytes),
    inputs <> [] -> s <> [] ->
    forall h, In h (hunks (run_steps M s inputs)) ->
    exists x, In x (contents inputs (snd h)) /\ x <> [].
  Proof. exact (no_empty_hunk_thm M M_valid). Qed.

  (** Matching and Different hunks never appear twice in a row. *)
  Theorem C03_alternate : forall (s : steps) (inputs : list bytes),
    inputs <> [] -> s <> [] ->
    forall i h1 h2, nth_error (hunks (run_steps M s inputs)) i = Some h1 ->
                    nth_error (hunks (run_steps M s inputs)) (S i) = Some h2 ->
                    fst h1 <> fst h2.
  Proof. intros s inputs Hi Hs. apply alternate_nth. now apply (alternate_thm M M_valid). Qed.

  (** If matched tokens are equal under the comparator, the slices of every Matching hunk
      are pairwise equal under it (when all steps use the same comparator [c]). *)
  Hypothesis M_eq : forall a b, Forall (fun p => nth (fst p) a [] = nth (snd p) b []) (M a b).

  Theorem C03_matching_eq : forall (c : comparator) (s : steps) (inputs : list bytes),
    inputs <> [] -> s <> [] -> Forall (fun tc => snd tc = c) s ->
    forall h, In h (hunks (run_steps M s inputs)) -> fst h = true ->
    forall x y, In x (contents inputs (snd h)) -> In y (contents inputs (snd h)) ->
                norm c x = norm c y.
  Proof. exact (matching_eq_thm M M_valid M_eq). Qed.
End LayerA.

(** The boolean validator for matchings means exactly the Layer-A hypothesis. *)
Theorem C03_valid_matchingb_spec : forall n m l,
  valid_matchingb n m l = true <->
  Forall (fun p => fst p < n /\ snd p < m) l
  /\ StronglySorted (fun p q => fst p < fst q /\ snd p < snd q) l.
Proof. exact valid_matchingb_spec. Qed.

(** Meaning of the checker [C03.okb] that every run evaluates on the implementation's
    hunks and raw matchings. *)
Theorem C03_okb_spec : forall inputs cfg ih im same panicked,
  okb (DiffCase inputs cfg ih im same panicked) = true <->
  panicked = false /\ same = true
  /\ (let hs := hunks_of ih in let s := steps_of cfg in
      ((forall h, In h hs -> length (snd h) = length inputs)
       /\ forall i, i < length inputs -> DiffA.side_concat (nth i inputs []) i hs = nth i inputs [])
      /\ (forall h, In h hs -> exists x, In x (contents inputs (snd h)) /\ x <> [])
      /\ alternate hs
      /\ forall c, s <> [] -> Forall (fun tc => snd tc = c) s ->
           forall h, In h hs -> fst h = true ->
           forall x y, In x (contents inputs (snd h)) -> In y (contents inputs (snd h)) ->
                       norm c x = norm c y)
  /\ Matchings_ok (steps_of cfg) inputs (map nat_pairs im).
Proof. exact okb_diff_spec. Qed.

(** The model's hunks pass that checker. *)
Theorem C03_model_passes_checker : forall M,
  (forall a b, valid_matching (length a) (length b) (M a b)) ->
  (forall a b, eq_matching a b (M a b)) ->
  forall s inputs, inputs <> [] -> s <> [] ->
  hunks_okb s inputs (hunks (run_steps M s inputs)) = true.
Proof. exact model_passes_checker. Qed.

(** Layer B obligation: the histogram matching satisfies the Layer-A hypotheses. *)
Definition C03_layerB_valid_stmt : Prop :=
  forall a b, valid_matching (length a) (length b) (M_hist a b) /\ eq_matching a b (M_hist a b).

(** The unconditional statement for the modelled [ContentDiff] (follows from the Layer-A
    theorems once [C03_layerB_valid_stmt] is proved). *)
Definition C03_full : Prop :=
  forall (s : steps) (inputs : list bytes), inputs <> [] -> s <> [] ->
  hunks_okb s inputs (diff_hunks s inputs) = true.

Theorem C03_full_from_layerB : C03_layerB_valid_stmt -> C03_full.
Proof.
  intros H s inputs Hi Hs. apply (model_passes_checker M_hist); auto; intros a b; apply H.
Qed.

(** The constants used by the model are the ones scraped from core/src/diff.rs. *)
Theorem C03_tables_agree : tables_okb = true.
Proof. reflexivity. Qed.

Example C03_nonvacuous :
  diff_hunks [(TokLine, CmpExact)] [hex "610a620a630a"; hex "610a780a630a64"]
  = [(true, [(0, 2); (0, 2)]); (false, [(2, 4); (2, 4)]); (true, [(4, 6); (4, 6)]);
     (false, [(6, 6); (6, 7)])]
  /\ valid_matchingb 3 4 (M_hist [hex "610a"; hex "620a"; hex "630a"]
                                 [hex "610a"; hex "780a"; hex "630a"; hex "64"]) = true
  /\ hunks_okb [(TokLine, CmpExact); (TokWord, CmpExact)]
               [hex "610a620a630a"; hex "610a780a630a64"; hex ""]
               (diff_hunks [(TokLine, CmpExact); (TokWord, CmpExact)]
                           [hex "610a620a630a"; hex "610a780a630a64"; hex ""]) = true.
Proof. vm_compute. repeat split. Qed.

Print Assumptions C03_partition.
Print Assumptions C03_matching_eq.
Print Assumptions C03_okb_spec.
