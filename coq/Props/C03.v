(** C03 — Content diffs partition their inputs deterministically.
    Model/Diff.v transcribes core/src/diff.rs: tokenizers, comparators (as normalisers),
    unchanged regions from matchings, n-way intersection, compaction, refinement and the
    hunk iterator (Layer A), and the histogram LCS (Layer B, [M_hist]). *)
From Coq Require Import Lia Arith Sorted.
From Verif Require Import Base.Prelude Model.Diff Model.C03
     Proofs.DiffBase Proofs.DiffA Proofs.DiffA2 Proofs.DiffA3 Proofs.DiffA4 Proofs.DiffThm Proofs.C03 Proofs.DiffB4 Proofs.DiffB7.

(** Layer A: for ANY matching function [M] whose results are in range and strictly
    increasing in both coordinates ([valid_matching], decided by [valid_matchingb]), every
    number of inputs >= 1, every tokenizer / comparator, every number of refinement steps. *)
Section LayerA.
  Variable M : list bytes -> list bytes -> list (nat * nat).
  Hypothesis M_valid : forall a b,
    Forall (fun p => fst p < length a /\ snd p < length b) (M a b)
    /\ StronglySorted (fun p q => fst p < fst q /\ snd p < snd q) (M a b).

  (** Concatenating each input's slices over all hunks rebuilds that input; every hunk has
      one slice per input. *)
  Theorem C03_partition : forall (s : steps) (inputs : list bytes),
    inputs <> [] -> s <> [] ->
    let hs := hunks (run_steps M s inputs) in
    (forall h, In h hs -> length (snd h) = length inputs)
    /\ forall i, i < length inputs ->
         concat (map (fun h => nth i (contents inputs (snd h)) []) hs) = nth i inputs [].
  Proof.
    intros s inputs Hi Hs hs. destruct (partition_thm M M_valid s inputs Hi Hs) as (A & B).
    split; [exact A|]. intros i Hlt. rewrite <- side_concat_contents by assumption. now apply B.
  Qed.

  (** No hunk is empty on every side. *)
  Theorem C03_no_empty_hunk : forall (s : steps) (inputs : list bytes),
    inputs <> [] -> s <> [] ->
    forall h, In h (hunks (run_steps M s inputs)) ->
    exists x, In x (contents inputs (snd h)) /\ x <> [].
  Proof. exact (no_empty_hunk_thm M M_valid). Qed.

  (** Matching and Different hunks never appear twice in a row. *)
  Theorem C03_alternate : forall (s : steps) (inputs : list bytes),
    inputs <> [] -> s <> [] ->
    forall i h1 h2, nth_error (hunks (run_steps M s inputs)) i = Some h1 ->
                    nth_error (hunks (run_steps M s inputs)) (S i) = Some h2 ->
                    fst h1 <> fst h2.
  Proof. intros s inputs Hi Hs. apply alternate_nth. now apply (alternate_thm M M_valid). Qed.

  (** If matched tokens are equal under the comparator, the slices of every Matching hunk
      are pairwise equal under it (when all steps use the same comparator [c]). *)
  Hypothesis M_eq : forall a b, Forall (fun p => nth (fst p) a [] = nth (snd p) b []) (M a b).

  Theorem C03_matching_eq : forall (c : comparator) (s : steps) (inputs : list bytes),
    inputs <> [] -> s <> [] -> Forall (fun tc => snd tc = c) s ->
    forall h, In h (hunks (run_steps M s inputs)) -> fst h = true ->
    forall x y, In x (contents inputs (snd h)) -> In y (contents inputs (snd h)) ->
                norm c x = norm c y.
  Proof. exact (matching_eq_thm M M_valid M_eq). Qed.
End LayerA.

(** The boolean validator for matchings means exactly the Layer-A hypothesis. *)
Theorem C03_valid_matchingb_spec : forall n m l,
  valid_matchingb n m l = true <->
  Forall (fun p => fst p < n /\ snd p < m) l
  /\ StronglySorted (fun p q => fst p < fst q /\ snd p < snd q) l.
Proof. exact valid_matchingb_spec. Qed.

(** Meaning of the checker [C03.okb] that every run evaluates on the implementation's
    hunks and raw matchings. *)
Theorem C03_okb_spec : forall inputs cfg ih im same panicked,
  okb (DiffCase inputs cfg ih im same panicked) = true <->
  panicked = false /\ same = true
  /\ (let hs := hunks_of ih in let s := steps_of cfg in
      ((forall h, In h hs -> length (snd h) = length inputs)
       /\ forall i, i < length inputs -> DiffA.side_concat (nth i inputs []) i hs = nth i inputs [])
      /\ (forall h, In h hs -> exists x, In x (contents inputs (snd h)) /\ x <> [])
      /\ alternate hs
      /\ forall c, s <> [] -> Forall (fun tc => snd tc = c) s ->
           forall h, In h hs -> fst h = true ->
           forall x y, In x (contents inputs (snd h)) -> In y (contents inputs (snd h)) ->
                       norm c x = norm c y)
  /\ Matchings_ok (steps_of cfg) inputs (map nat_pairs im).
Proof. exact okb_diff_spec. Qed.

(** ... and on the bare [collect_unchanged_words] and [find_lcs] cases. *)
Theorem C03_okb_match_spec : forall l r im same panicked,
  okb (MatchCase l r im same panicked) = true <->
  panicked = false /\ same = true
  /\ valid_matching (length l) (length r) (nat_pairs im)
  /\ Forall (fun p => exists a, nth_error l (fst p) = Some a /\ nth_error r (snd p) = Some a) (nat_pairs im).
Proof. exact okb_match_spec. Qed.

Theorem C03_okb_lcs_spec : forall input res panicked,
  okb (LcsCase input res panicked) = true <->
  panicked = false
  /\ StronglySorted lt2 (nat_pairs res)
  /\ (forall q, In q (nat_pairs res) -> nth_error (map N.to_nat input) (snd q) = Some (fst q))
  /\ (input <> [] -> res <> []).
Proof. exact okb_lcs_spec. Qed.

(** The correspondence check computes each first-step matching once and looks it up again
    while assembling the hunks; the lookup function is [M_hist]. *)
Theorem C03_memo_correct : forall bw ows a b,
  M_memo (map (fun om => (bw, fst om, snd om)) (combine ows (map (M_hist bw) ows))) a b = M_hist a b.
Proof. intros bw ows. apply M_memo_correct. apply memo_table_ok. Qed.

(** The model's hunks pass that checker. *)
Theorem C03_model_passes_checker : forall M,
  (forall a b, valid_matching (length a) (length b) (M a b)) ->
  (forall a b, eq_matching a b (M a b)) ->
  forall s inputs, inputs <> [] -> s <> [] ->
  hunks_okb s inputs (hunks (run_steps M s inputs)) = true.
Proof. exact model_passes_checker. Qed.

(** Layer B: the modelled histogram LCS ([Histogram::calculate] with the occurrence cut-off,
    the lowest-count selection, [find_lcs], the recursion into gaps and the leading/trailing
    fallback) returns, for EVERY iteration order of the hash table that is a permutation of
    its entries and every cut-off, a matching that is in range, strictly increasing in both
    coordinates and token-equal. Hence the hypotheses of the Layer-A theorems hold for the
    modelled [ContentDiff]. *)
Theorem C03_layerB_valid :
  forall (T : Type) (eqb : T -> T -> bool), (forall x y, eqb x y = true <-> x = y) ->
  forall (order : list (T * list nat) -> list (T * list nat)),
    (forall h, Permutation.Permutation (order h) h) ->
  forall (max_occ : nat) (left right : list T),
    let R := collect_unchanged_words eqb order max_occ left right in
    (Forall (fun p => fst p < length left /\ snd p < length right) R
     /\ StronglySorted (fun p q => fst p < fst q /\ snd p < snd q) R)
    /\ Forall (fun q => exists k, nth_error left (fst q) = Some k /\ nth_error right (snd q) = Some k) R.
Proof. exact @collect_unchanged_words_valid. Qed.

(** [find_lcs] alone: strictly increasing chains of pairs [(input[r], r)], for any input vector. *)
Theorem C03_find_lcs_valid : forall input : list nat,
  StronglySorted (fun p q => fst p < fst q /\ snd p < snd q) (find_lcs input)
  /\ (forall q, In q (find_lcs input) -> nth_error input (snd q) = Some (fst q))
  /\ (input <> [] -> find_lcs input <> []).
Proof. exact DiffB1.find_lcs_spec. Qed.

(** The unconditional statements for the modelled [ContentDiff] ([diff_hunks] = Layer A over
    the histogram matching with the scraped cut-off). *)
Theorem C03_diff_partition : forall (s : steps) (inputs : list bytes),
  inputs <> [] -> s <> [] ->
  let hs := diff_hunks s inputs in
  (forall h, In h hs -> length (snd h) = length inputs)
  /\ forall i, i < length inputs ->
       concat (map (fun h => nth i (contents inputs (snd h)) []) hs) = nth i inputs [].
Proof. exact (C03_partition M_hist (fun a b => proj1 (M_hist_valid a b))). Qed.

Theorem C03_diff_hunks_ok : forall (s : steps) (inputs : list bytes),
  inputs <> [] -> s <> [] ->
  let hs := diff_hunks s inputs in
  (forall h, In h hs -> exists x, In x (contents inputs (snd h)) /\ x <> [])
  /\ (forall i h1 h2, nth_error hs i = Some h1 -> nth_error hs (S i) = Some h2 -> fst h1 <> fst h2)
  /\ (forall c, Forall (fun tc => snd tc = c) s ->
       forall h, In h hs -> fst h = true ->
       forall x y, In x (contents inputs (snd h)) -> In y (contents inputs (snd h)) ->
                   norm c x = norm c y).
Proof.
  intros s inputs Hi Hs hs. pose proof (fun a b => proj1 (M_hist_valid a b)) as V.
  pose proof (fun a b => proj2 (M_hist_valid a b)) as E. repeat split.
  - now apply (C03_no_empty_hunk M_hist V).
  - now apply (C03_alternate M_hist V).
  - intros c Hc. now apply (C03_matching_eq M_hist V E).
Qed.

(** The same holds with the hash table iterated in the opposite order, which every run also
    compares with the implementation. *)
Theorem C03_diff_rev_checker : forall (s : steps) (inputs : list bytes),
  inputs <> [] -> s <> [] ->
  hunks_okb s inputs (hunks (run_steps M_hist_rev s inputs)) = true.
Proof.
  intros s inputs Hi Hs. apply (model_passes_checker M_hist_rev); auto; intros a b; apply M_hist_rev_valid.
Qed.

Definition C03_full : Prop :=
  forall (s : steps) (inputs : list bytes), inputs <> [] -> s <> [] ->
  hunks_okb s inputs (diff_hunks s inputs) = true.

Theorem C03_full_proved : C03_full.
Proof.
  intros s inputs Hi Hs. apply (model_passes_checker M_hist); auto; intros a b; apply M_hist_valid.
Qed.

(** Determinism: neither the raw matching nor the hunks depend on the iteration order of the
    hash table (any two permutations of its entries), hence not on the per-diff random hash
    seed: positions are unique keys, so sorting erases the enumeration order. *)
Theorem C03_deterministic :
  forall (order1 order2 : list (bytes * list nat) -> list (bytes * list nat)),
    (forall h, Permutation.Permutation (order1 h) h) ->
    (forall h, Permutation.Permutation (order2 h) h) ->
    forall (max_occ : nat),
    (forall a b, collect_unchanged_words bytes_eqb order1 max_occ a b
                 = collect_unchanged_words bytes_eqb order2 max_occ a b)
    /\ forall (s : steps) (inputs : list bytes),
         hunks (run_steps (collect_unchanged_words bytes_eqb order1 max_occ) s inputs)
         = hunks (run_steps (collect_unchanged_words bytes_eqb order2 max_occ) s inputs).
Proof.
  intros o1 o2 P1 P2 m. split.
  - intros a b. now apply M_order_independent.
  - intros s inputs. now apply hunks_order_independent.
Qed.

(** Termination: the fuel the model gives to the recursion of [collect_unchanged_words]
    ([S (length left)]) suffices - every larger fuel yields the same matching, because each
    recursive call works on a strictly shorter left token list. *)
Theorem C03_fuel_suffices :
  forall (T : Type) (eqb : T -> T -> bool), (forall x y, eqb x y = true <-> x = y) ->
  forall (order : list (T * list nat) -> list (T * list nat)),
    (forall h, Permutation.Permutation (order h) h) ->
  forall (max_occ : nat) (left right : list T) (fuel : nat),
    length left < fuel ->
    collect_unchanged_words eqb order max_occ left right = cuw eqb order max_occ fuel left right 0 0.
Proof. exact @collect_unchanged_words_fuel. Qed.

(** The constants used by the model are the ones scraped from core/src/diff.rs. *)
Theorem C03_tables_agree : tables_okb = true.
Proof. reflexivity. Qed.

Example C03_nonvacuous :
  diff_hunks [(TokLine, CmpExact)] [hex "610a620a630a"; hex "610a780a630a64"]
  = [(true, [(0, 2); (0, 2)]); (false, [(2, 4); (2, 4)]); (true, [(4, 6); (4, 6)]);
     (false, [(6, 6); (6, 7)])]
  /\ valid_matchingb 3 4 (M_hist [hex "610a"; hex "620a"; hex "630a"]
                                 [hex "610a"; hex "780a"; hex "630a"; hex "64"]) = true
  /\ hunks_okb [(TokLine, CmpExact); (TokWord, CmpExact)]
               [hex "610a620a630a"; hex "610a780a630a64"; hex ""]
               (diff_hunks [(TokLine, CmpExact); (TokWord, CmpExact)]
                           [hex "610a620a630a"; hex "610a780a630a64"; hex ""]) = true.
Proof. vm_compute. repeat split. Qed.

Print Assumptions C03_partition.
Print Assumptions C03_matching_eq.
Print Assumptions C03_okb_spec.
Print Assumptions C03_layerB_valid.
Print Assumptions C03_full_proved.
Print Assumptions C03_deterministic.
