(** C09 — Moving changes down a stack never alters the snapshots above it.
    Model: Model/C09.v on top of Model/Rebase.v and Model/TreeMerge.v: every commit that
    squash_commits (rewrite.rs:1368-1479), absorb_hunks (absorb.rs:308-370), the split command
    (cli/src/commands/split.rs:335-366, 497-544) and the following rebase of descendants
    write is one row whose tree is obtained by reparent (kept), by CommitRewriter::rebase, or
    by MergedTree::merge of given terms. *)
From Verif Require Import Base.Prelude Model.Merge Model.TreeMerge Model.TreeCase Model.Rebase Model.C09.
From Verif Require Import Proofs.TreeValue Proofs.C07 Proofs.C08 Proofs.C09 Proofs.MergeIdentities Proofs.ThereBack.

Section Statements.
  Context (accept : bool) (content_merge : list N -> option N).

  (** Squashing a whole commit [s] into its only parent [d] (resolved trees): the topmost
      resulting commit, the new destination [d - d + s], has exactly the tree [s]. *)
  Theorem C09_squash_top : forall d s : tree,
    merged_tree_merge accept content_merge [[d]; [d]; [s]] = [s].
  Proof. exact (squash_full_dest accept content_merge). Qed.

  (** Squashing a selection [x] of [s] into the only parent [d]: the destination becomes [x];
      the source is rewritten to [s - x + d] and then rebased from [d] onto [x]. When
      [s - x + d] stays a three-sided conflict, that rebase returns exactly [s]: the
      tree-id level identity simplify (flatten [[x]; [d]; [s; x; d]]) = [s], for all
      coincidences among [s], [x], [d]. *)
  Theorem C09_squash_partial_dest : forall d x : tree,
    merged_tree_merge accept content_merge [[d]; [d]; [x]] = [x].
  Proof. exact (squash_partial_dest accept content_merge). Qed.
  Theorem C09_squash_partial_top_formal : forall d x s : tree,
    rebase_tree accept content_merge [x] [d] [s; x; d] = [s].
  Proof. exact (squash_partial_source_formal accept content_merge). Qed.

  (** When [s - x + d] resolves instead: for a selection [x] made of whole entries of [s]
      (at every name, at every directory level, [x] has [d]'s entry or [s]'s entry, or all
      three are directories that differ in recursively disjoint ways), the rewritten source
      rebased from [d] onto the new destination [x] is exactly [s] again. *)
  Theorem C09_squash_partial_top : forall d x s : tree,
    wf_tree x -> wf_tree s -> Disj accept d x s ->
    rebase_tree accept content_merge [x] [d]
      (merged_tree_merge accept content_merge [[s]; [x]; [d]]) = [s].
  Proof. exact (squash_partial_restores accept content_merge). Qed.

  (** Both identities for a conflicted destination / selection of any arity. *)
  Theorem C09_squash_top_general : forall (d : list tree) (s : tree), Nat.odd (length d) = true ->
    merged_tree_merge accept content_merge [d; d; [s]] = [s].
  Proof. intros d s Hd. exact (proj2 (base_identity_general accept content_merge s d Hd)). Qed.
  Theorem C09_squash_partial_top_formal_general : forall (x d : list tree) (s : tree),
    Nat.odd (length x) = true -> Nat.odd (length d) = true ->
    rebase_tree accept content_merge x d (flatten [[s]; x; d]) = [s].
  Proof. exact (squash_source_formal_general accept content_merge). Qed.

  Context (tab : list ctree).

  (** Absorb rewrites its source, and split writes its second commit, with reparent: the
      tree is the original one, whatever the new parents are (any arity, conflicted or not). *)
  Theorem C09_absorb_top : forall t origin ps,
    row_tree accept content_merge tab t origin KKeep ps = Some (tab_tree t origin).
  Proof. exact (keep_row accept content_merge tab). Qed.
  Theorem C09_split_top : forall t origin ps,
    row_tree accept content_merge tab t origin KKeep ps = Some (tab_tree t origin).
  Proof. exact (keep_row accept content_merge tab). Qed.

  (** A rebased descendant whose new parents carry the same trees as its old parents keeps
      its tree exactly (the shortcut of rebase_with_empty_behavior, rewrite.rs:381-388). *)
  Theorem C09_rebase_keeps : forall t origin ps,
    map (tab_tree t) ps = map (tab_tree t) (tab_parents t origin) ->
    row_tree accept content_merge tab t origin KRebase ps = Some (tab_tree t origin).
  Proof. exact (rebase_row_keeps accept content_merge tab). Qed.

  (** Hence every descendant of the top commit — any number, merge commits included, the
      working-copy commit being just another descendant — has after the operation exactly
      the tree it had: [t0] is the commit table the operation left (with the pairs [K] of
      commits and their tree-identical new versions, e.g. the top commit), [rows] the
      descendants rebased afterwards in index order, each onto the kept versions of its
      old parents or onto unchanged parents. *)
  Theorem C09_descendants_keep : forall t0 rows K,
    kept K t0 ->
    (forall a b, In (a, b) K -> a < length t0 /\ b < length t0)%nat ->
    stack_ok t0 K (length t0) rows ->
    exists t', run accept content_merge tab t0 rows = Some t'
               /\ forall j o ps, nth_error rows j = Some (o, ps) ->
                                 tab_tree t' (length t0 + j) = tab_tree t0 o.
  Proof. exact (descendants_keep accept content_merge tab). Qed.
End Statements.

(** Outside the theorems: selections that take part of a file (hunk level); there the
    restoration of [s] rests on the content merge (C04's domain) undoing itself. Such
    selections are generated and checked on the implementation's trees on every run. *)

Theorem C09_okb_spec : forall c : case,
  okb c = true <->
  (forall r, In r (c_rows c) -> r_tree r <> None)
  /\ (out_of_statement c = false ->
      forall o n, In (o, n) (c_keep c ++ c_keep_side c) ->
        let t := ext_table c (length (c_rows c)) in
        tab_tree t (N.to_nat n) = tab_tree t (N.to_nat o)).
Proof. exact okb_spec. Qed.

(** Observation (outside the statement, which speaks of squashing a whole commit): a partial
    squash out of a conflicted commit can return the same conflict with its sides in another
    order (observed on the implementation; here on the model). The kept-trees clause of the
    checker does not apply to such cases. *)
Definition q_f (i : N) (c : N) : value := File i true c.
Definition q_t3 : tree := [(0, Tree [(1, q_f 0 0)])]%N.
Definition q_t5 : tree := [(0, Tree [(1, q_f 0 1)])]%N.
Definition q_t6 : tree := [(0, q_f 1 0)]%N.
Theorem C09_conflict_sides_reordered :
  let s := [q_t5; q_t3; q_t6] in
  let s' := merged_tree_merge false (fun _ => None) [s; [q_t6]; [q_t3]] in
  let s'' := rebase_tree false (fun _ => None) [q_t6] [q_t3] s' in
  s'' = [q_t6; q_t3; q_t5] /\ s'' <> s /\ den_eqb tree_eqb s'' s = true.
Proof. vm_compute. repeat split. congruence. Qed.

Check C09_descendants_keep : forall accept content_merge tab t0 rows K,
  kept K t0 ->
  (forall a b, In (a, b) K -> a < length t0 /\ b < length t0)%nat ->
  stack_ok t0 K (length t0) rows ->
  exists t', run accept content_merge tab t0 rows = Some t'
             /\ forall j o ps, nth_error rows j = Some (o, ps) ->
                               tab_tree t' (length t0 + j) = tab_tree t0 o.

(** Non-vacuity: squash [s] into [d] with selection [x] (path 1 of two changed paths), then a
    child [c] and a merge child rebased: all keep their trees. *)
Definition nf (i : N) : value := File i false 0.
Definition nv_d : tree := [(0, nf 1); (1, nf 2)]%N.
Definition nv_s : tree := [(0, nf 11); (1, nf 12)]%N.
Definition nv_x : tree := [(0, nf 1); (1, nf 12)]%N.
Definition nv_c : tree := [(0, nf 11); (1, nf 12); (2, nf 3)]%N.
Example C09_nonvacuous :
  let mm := merged_tree_merge true (fun _ => None) in
  let s' := mm [[nv_s]; [nv_x]; [nv_d]] in
  mm [[nv_d]; [nv_d]; [nv_x]] = [nv_x]
  /\ s' = [[(0, nf 11); (1, nf 2)]%N]
  /\ rebase_tree true (fun _ => None) [nv_x] [nv_d] s' = [nv_s]
  /\ (* commits: 0 root, 1 d, 2 s (parent 1), 3 c (parent 2), 4 merge of 2 and 3; after the
        squash: 5 = new d (tree x), 6 = new s (tree s); then 3 and 4 are rebased *)
     let t0 := [([], [[]]); ([0], [nv_d]); ([1], [nv_s]); ([2], [nv_c]); ([2; 3], [nv_c]);
                ([0], [nv_x]); ([5], [nv_s])]%nat in
     exists t', run true (fun _ => None) [] t0 [(3, [6]); (4, [6; 7])]%nat = Some t'
                /\ tab_tree t' 7 = [nv_c] /\ tab_tree t' 8 = [nv_c].
Proof. vm_compute. repeat split. eexists. repeat split. Qed.

Print Assumptions C09_squash_top.
Print Assumptions C09_squash_partial_top.
Print Assumptions C09_squash_top_general.
Print Assumptions C09_squash_partial_top_formal_general.
Print Assumptions C09_squash_partial_top_formal.
Print Assumptions C09_rebase_keeps.
Print Assumptions C09_descendants_keep.
Print Assumptions C09_okb_spec.
