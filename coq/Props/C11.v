(** C11 — Rewrites leave no orphans and references follow.
    Model: Model/RepoV.v (lib/src/repo.rs rebase_descendants_with_options and helpers,
    lib/src/rewrite.rs, lib/src/refs.rs, lib/src/commit_builder.rs). *)
From Verif Require Import Base.Prelude Base.DagV Model.Merge Model.RepoV Model.C11 Proofs.C10 Proofs.C11 Proofs.C11Loop Proofs.C11View Proofs.C11Follow Proofs.C11Order Proofs.C10Rebase Proofs.C11Unique Proofs.C10Guard.

(** rewritten_ids_with (new_parents is the instance that skips divergent records) never runs out
    of the stated fuel, whatever the mapping (cyclic or not): every key is expanded once. *)
Theorem C11_new_parents_terminates : forall pm pred old_ids,
  rewritten_ids_with pm pred old_ids <> Fuel.
Proof. exact rewritten_ids_with_terminates. Qed.

(** When it returns, the result is non-empty, every id in it is one of the given ids or a
    recorded replacement, and none of them has a (selected) record itself: the replacement chain
    was followed to its end. *)
Theorem C11_new_parents_complete : forall pm pred old_ids l,
  rewritten_ids_with pm pred old_ids = Ok l ->
  l <> [] /\
  forall x, In x l ->
    pm_filtered pm pred x = None /\
    (In x old_ids \/ exists k r, In (k, r) pm /\ In x (new_parent_ids r)).
Proof. exact rewritten_ids_with_result. Qed.

(** Meaning of the orphan clause of the checker, evaluated on the implementation's final graph
    [G] and view [v]: no visible commit outside the shield (immutable commits and ancestors of
    commits with a divergent record) is rewritten/abandoned or reaches such a commit through
    unshielded commits. *)
Theorem C11_no_orphans_checker_spec : forall s0 o G v, wf_dag (pg G) ->
  (no_orphans_b s0 o G v = true <->
   forall x, covered (pg G) (v_heads v) x ->
     ~ In x (shield s0 o G) ->
     ~ Tainted (pg G) (nd_keys (final_pm G (length (s_g s0)) (s_pm s0) (o_oracle o))) (shield s0 o G) x).
Proof. exact no_orphans_b_spec. Qed.

(** F5 (repaired in /repo by ad3bc19): with the ordering relation of the code BEFORE the repair
    (direct replacements only, [oc_deps_old]) the no-orphans statement is false. Witness:
    A<-F<-M<-X, rewrite A->A', rewrite F->F' (still on the old A), abandon M,
    rebase_descendants(). The records are in the domain, the rebase returns normally, and the
    visible commit X' has the rewritten ancestor F'. With the current relation the same case
    satisfies the checker (and corpus case 0 of the harness replays it on the implementation:
    it passes now and fails if the repair is reverted). *)
Definition f5_before : list op :=
  [ONew [0] 1 false; ONew [1] 2 false; ONew [2] 3 false; ONew [3] 4 false; OCommit;
   ORewrite 1 None 5; ORewrite 2 None 6; OAbandon 3].
Definition f5_opts : rebase_opts := mk_opts [] 0 false false [].
Definition f5_ops : list op := f5_before ++ [ORebase f5_opts; OCommit].
Definition model_case (ops : list op) : case :=
  match run init_state ops [] with
  | (Ok s, vs) => mk_case ops 0 vs (s_g s)
  | (_, vs) => mk_case ops 2 vs []
  end.
Theorem C11_no_orphans_old_refuted :
  exists s0 s', pre_state f5_before = Ok s0 /\ dom_ok s0 f5_opts = true /\
    f5_class_state s0 f5_opts = true /\
    rebase_descendants_old s0 f5_opts = Ok s' /\
    no_orphans_b s0 f5_opts (s_g s') (s_v s') = false.
Proof.
  eexists. eexists. split; [vm_compute; reflexivity|].
  split; [vm_compute; reflexivity|]. split; [vm_compute; reflexivity|].
  split; [vm_compute; reflexivity|vm_compute; reflexivity].
Qed.
Example C11_f5_witness_passes_now :
  in_domain (model_case f5_ops) = true /\ okb (model_case f5_ops) = true.
Proof. vm_compute. auto. Qed.

(** No orphans after the rebase loop, for EVERY processing order that respects the dependencies
    the implementation computes (a parent that is to be rebased, and every to-be-rebased commit
    reached from a parent by following the replacement records, come first), any history, any
    records, any options and any tree oracle. [s0] is the state when rebase_descendants is called
    (invariant [J]: well-formed graph and view), [T] the set of commits to rebase
    (find_descendants_for_rebase), [s1] the state after transform_commits' loop (before the
    references are updated). Every commit of [s1] that has no rewritten/abandoned record and is in
    scope (an ancestor of a head, a key or an immutable commit; or a commit created by the loop) is
    clean: unless shielded (immutable, or an ancestor of a commit with a divergent record) it does
    not descend, through unshielded commits, from a rewritten or abandoned commit.
    Hypothesis: replacement targets are in scope. *)
Theorem C11_no_orphans_loop : forall (s0 : state) (o : rebase_opts),
  J s0 ->
  let T := find_descendants_for_rebase s0 (o_imm o) in
  (forall k r t, In (k, r) (s_pm s0) -> In t (new_parent_ids r) -> In t (scope s0 (o_imm o))) ->
  forall order s1,
  valid_from s0 o [] order -> (forall x, In x T -> In x order) ->
  rebase_fold o order s0 = Ok s1 ->
  forall y, y < length (s_g s1) -> (y < length (s_g s0) -> In y (scope s0 (o_imm o))) ->
    pm_nd (s_pm s1) y = None ->
    let sh := ancs (pg (s_g s1)) (o_imm o ++ div_keys (s_pm s1)) in
    ~ In y sh -> ~ Tainted (pg (s_g s1)) (nd_keys (s_pm s1)) sh y.
Proof.
  intros s0 o J0 T Dom order s1 V Tall H.
  exact (proj2 (loop_clean s0 o J0 Dom order s1 V Tall H)).
Qed.

(** HEADLINE. No orphans in the view written by rebase_descendants: for every state [s0]
    satisfying the invariant [J] (well-formed graph and view), every set of rewrite / abandon /
    divergent records whose replacement targets are in scope, every option set, immutable set and
    tree oracle, and every ordering function [ord] whose result respects the dependency relation
    the code computes and covers the commits to rebase: if rebase_descendants returns [s'], then no
    commit visible in [s'] descends - through unshielded commits - from a commit with a
    rewritten/abandoned record ([s1] = the state after the rebase loop, whose parent_mapping holds
    the final records). Shielded = immutable, or an ancestor of a commit with a divergent record
    (those are kept in place on purpose). *)
Theorem C11_no_orphans : forall (s0 : state) (o : rebase_opts) ord (s' : state),
  J s0 ->
  (forall k r t, In (k, r) (s_pm s0) -> In t (new_parent_ids r) -> In t (scope s0 (o_imm o))) ->
  (forall name t, In (name, t) (v_bms (s_v s0)) -> Nat.odd (length t) = true) ->
  pm_get (s_pm s0) 0 = None ->
  (forall order, ord (s_g s0) (s_pm s0) (find_descendants_for_rebase s0 (o_imm o)) = Ok order ->
     valid_from s0 o [] order /\ forall x, In x (find_descendants_for_rebase s0 (o_imm o)) -> In x order) ->
  rebase_descendants_with ord s0 o = Ok s' ->
  exists s1, rebase_loop_with ord s0 o = Ok s1 /\
    let sh := ancs (pg (s_g s')) (o_imm o ++ div_keys (s_pm s1)) in
    forall x, covered (pg (s_g s')) (v_heads (s_v s')) x -> ~ In x sh ->
      ~ Tainted (pg (s_g s')) (nd_keys (s_pm s1)) sh x.
Proof. exact no_orphans_model. Qed.

(** Instance for the implementation's ordering (the DFS of order_commits_for_rebase), with the
    hypothesis on the order replaced by the boolean [order_valid] that is evaluated on every
    correspondence case. *)
Theorem C11_no_orphans_impl_order : forall (s0 : state) (o : rebase_opts) (s' : state),
  J s0 ->
  (forall k r t, In (k, r) (s_pm s0) -> In t (new_parent_ids r) -> In t (scope s0 (o_imm o))) ->
  (forall name t, In (name, t) (v_bms (s_v s0)) -> Nat.odd (length t) = true) ->
  pm_get (s_pm s0) 0 = None ->
  order_valid s0 o = true ->
  rebase_descendants s0 o = Ok s' ->
  exists s1, rebase_loop s0 o = Ok s1 /\
    let sh := ancs (pg (s_g s')) (o_imm o ++ div_keys (s_pm s1)) in
    forall x, covered (pg (s_g s')) (v_heads (s_v s')) x -> ~ In x sh ->
      ~ Tainted (pg (s_g s')) (nd_keys (s_pm s1)) sh x.
Proof.
  intros s0 o s' J0 Dom Odd Root OV H.
  apply (no_orphans_model s0 o order_commits_for_rebase s' J0 Dom Odd Root); [|exact H].
  intros order EO. unfold order_valid in OV. rewrite EO in OV.
  apply andb_true_iff in OV. destruct OV as [V C]. split.
  - now apply valid_fromb_spec.
  - intros x Hx. rewrite forallb_forall in C. apply memn_In. now apply C.
Qed.

(** The DFS of order_commits_for_rebase (dag_walk::topo_order_forward with the [visited] side
    state) returns a dependency-respecting order that covers every commit to rebase, whenever the
    dependency relation is acyclic (there is a rank that decreases along every dependency: no
    commit is asked to be rebased onto its own descendant). *)
Theorem C11_order_valid : forall (s0 : state) (o : rebase_opts) (rank : nat -> nat) order,
  let T := find_descendants_for_rebase s0 (o_imm o) in
  (forall x y, In x T -> In y (oc_deps (s_g s0) (s_pm s0) T [] x) -> rank y < rank x) ->
  order_commits_for_rebase (s_g s0) (s_pm s0) T = Ok order ->
  valid_from s0 o [] order /\ forall x, In x T -> In x order.
Proof. intros s0 o rank order T Hr H. exact (order_commits_valid s0 o rank Hr order H). Qed.

(** HEADLINE for the model of rebase_descendants itself (the implementation's ordering): no
    hypothesis on the order is left, only the acyclicity of the dependency relation. *)
Theorem C11_no_orphans_rebase_descendants : forall (s0 : state) (o : rebase_opts) (s' : state),
  J s0 ->
  (forall k r t, In (k, r) (s_pm s0) -> In t (new_parent_ids r) -> In t (scope s0 (o_imm o))) ->
  (forall name t, In (name, t) (v_bms (s_v s0)) -> Nat.odd (length t) = true) ->
  pm_get (s_pm s0) 0 = None ->
  (exists rank : nat -> nat, forall x y,
     In x (find_descendants_for_rebase s0 (o_imm o)) ->
     In y (oc_deps (s_g s0) (s_pm s0) (find_descendants_for_rebase s0 (o_imm o)) [] x) -> rank y < rank x) ->
  rebase_descendants s0 o = Ok s' ->
  exists s1, rebase_loop s0 o = Ok s1 /\
    let sh := ancs (pg (s_g s')) (o_imm o ++ div_keys (s_pm s1)) in
    forall x, covered (pg (s_g s')) (v_heads (s_v s')) x -> ~ In x sh ->
      ~ Tainted (pg (s_g s')) (nd_keys (s_pm s1)) sh x.
Proof.
  intros s0 o s' J0 Dom Odd Root [rank Hr] H.
  apply (no_orphans_model s0 o order_commits_for_rebase s' J0 Dom Odd Root); [|exact H].
  intros order EO. exact (order_commits_valid s0 o rank Hr order EO).
Qed.

(** Corollary for the domain the checker uses: every hypothesis of the headline follows from the
    state invariant, the boolean domain check [dom_ok] (evaluated on every case) and odd-length
    bookmark targets. *)
Theorem C11_no_orphans_in_domain : forall (s0 : state) (o : rebase_opts) (s' : state),
  J s0 -> dom_ok s0 o = true ->
  (forall name t, In (name, t) (v_bms (s_v s0)) -> Nat.odd (length t) = true) ->
  rebase_descendants s0 o = Ok s' ->
  exists s1, rebase_loop s0 o = Ok s1 /\
    let sh := ancs (pg (s_g s')) (o_imm o ++ div_keys (s_pm s1)) in
    forall x, covered (pg (s_g s')) (v_heads (s_v s')) x -> ~ In x sh ->
      ~ Tainted (pg (s_g s')) (nd_keys (s_pm s1)) sh x.
Proof.
  intros s0 o s' J0 Dom Odd H.
  destruct (dom_ok_facts s0 o (j_wf _ J0) Dom) as [[rank Hr] [Tg Root]].
  apply (no_orphans_model s0 o order_commits_for_rebase s' J0 Tg Odd Root); [|exact H].
  intros order EO. exact (order_commits_valid s0 o rank Hr order EO).
Qed.

(** The state invariant [J] that the theorems above assume holds in every state reachable from the
    empty repository by the basic mutations of C10 and the record operations (rewrite_commit with
    or without new parents, record_abandoned_commit[_with_parents], set_rewritten_commit,
    set_divergent_rewrite) with existing ids: i.e. whenever rebase_descendants is called for the
    first time. *)
Theorem C11_reachable_states_invariant : forall s, reach_pre s -> J s.
Proof. exact reach_pre_J. Qed.

(** Cycles are detected: whenever resolve_rewrite_mapping returns a mapping (instead of the
    "Cycle between rewritten commits" error), the selected records are acyclic: there is a rank
    that strictly decreases from every key to each of its replacements. *)
Theorem C11_cycle_detected : forall pm pred m,
  resolve_rewrite_mapping pm pred = Ok m ->
  exists rank : nat -> nat, forall k r t,
    In k (pm_keys pm) -> pm_filtered pm pred k = Some r -> In t (new_parent_ids r) -> rank t < rank k.
Proof. exact resolve_acyclic. Qed.

(** Identity: rebase_descendants leaves every existing commit as it is, and every commit it adds
    is either the rebased copy of a commit [x] that was to be rebased - same change id, same
    description, predecessor [x] - or a re-created working-copy commit: no predecessor, a fresh
    change id, empty description, empty content. *)
Theorem C11_identity_kept : forall (s0 : state) (o : rebase_opts) ord (s' : state),
  J s0 ->
  (forall k r t, In (k, r) (s_pm s0) -> In t (new_parent_ids r) -> In t (scope s0 (o_imm o))) ->
  (forall name t, In (name, t) (v_bms (s_v s0)) -> Nat.odd (length t) = true) ->
  (forall order, ord (s_g s0) (s_pm s0) (find_descendants_for_rebase s0 (o_imm o)) = Ok order ->
     valid_from s0 o [] order /\ forall x, In x (find_descendants_for_rebase s0 (o_imm o)) -> In x order) ->
  rebase_descendants_with ord s0 o = Ok s' ->
  length (s_g s0) <= length (s_g s') /\
  (forall i, i < length (s_g s0) -> getc (s_g s') i = getc (s_g s0) i) /\
  forall y, length (s_g s0) <= y < length (s_g s') ->
    let c := getc (s_g s') y in
    (exists x, c_preds c = [x] /\ In x (find_descendants_for_rebase s0 (o_imm o)) /\
               c_change c = c_change (getc (s_g s0) x) /\ c_desc c = c_desc (getc (s_g s0) x))
    \/ (c_preds c = [] /\ c_change c = N.of_nat y /\ c_desc c = 0%N /\ c_empty c = true).
Proof. exact identity_model. Qed.

(** Bookmarks follow (any ordering function, any records): an unconflicted local bookmark at a
    commit [k] with a rewrite record ends at the full resolution [nids] of [k] through the final
    records - the single new commit; a conflict [n1 - k + n2 ...] of all of them when there are
    several (divergent rewrite, abandoned merge); absent for an abandoned commit when
    delete_abandoned_bookmarks is set - and an unconflicted bookmark at a commit without record
    stays where it is. *)
Theorem C11_bookmarks_follow : forall (s0 : state) (o : rebase_opts) ord (s' : state),
  NoDup (map fst (v_bms (s_v s0))) ->
  rebase_descendants_with ord s0 o = Ok s' ->
  exists s1 mapping, rebase_loop_with ord s0 o = Ok s1 /\
    resolve_rewrite_mapping (s_pm s1) (fun _ => true) = Ok mapping /\
    forall name k, aget N.eqb name (v_bms (s_v s0)) = Some [Some k] ->
      match aget Nat.eqb k mapping with
      | Some nids =>
          rewritten_ids_with (s_pm s1) (fun _ => true) [k] = Ok nids /\
          bm_get (s_v s') name =
            (if o_delete_abandoned o && is_abandoned (pm_get (s_pm s1) k) then absent_target
             else intersperse (map Some nids) (Some k))
      | None => bm_get (s_v s') name = [Some k]
      end.
Proof. exact bookmarks_follow_model. Qed.

(** Working copies follow (any ordering function, any records; distinct workspace names): a
    workspace whose working-copy commit [k] has no rewrite record keeps it; with a Rewritten or
    Divergent record it moves to the first commit of the full resolution of [k]; with an Abandoned
    record it moves to a commit created by this call, without predecessor, whose parents are the
    full resolution of [k]. (When the first commit of the resolution is the root, the
    implementation panics instead: known finding wc-resolves-to-root; then there is no [s'].) *)
Theorem C11_wc_follows : forall (s0 : state) (o : rebase_opts) ord (s' : state),
  NoDup (map fst (v_wcs (s_v s0))) ->
  rebase_descendants_with ord s0 o = Ok s' ->
  exists s1 mapping, rebase_loop_with ord s0 o = Ok s1 /\
    resolve_rewrite_mapping (s_pm s1) (fun _ => true) = Ok mapping /\
    forall ws k, aget N.eqb ws (v_wcs (s_v s0)) = Some k ->
      match aget Nat.eqb k mapping with
      | Some nids =>
          rewritten_ids_with (s_pm s1) (fun _ => true) [k] = Ok nids /\
          exists c, wc_get (s_v s') ws = Some c /\
            if is_abandoned (pm_get (s_pm s1) k)
            then length (s_g s1) <= c /\ c_parents (getc (s_g s') c) = nids /\ c_preds (getc (s_g s') c) = []
            else c = hd 0 nids
      | None => wc_get (s_v s') ws = Some k
      end.
Proof. exact wc_follows_model. Qed.

(** The order check run on every case means [valid_from]. *)
Theorem C11_order_check_spec : forall s0 o order,
  valid_fromb (s_g s0) (s_pm s0) (find_descendants_for_rebase s0 (o_imm o)) [] order = true ->
  valid_from s0 o [] order.
Proof. intros s0 o order. apply valid_fromb_spec. Qed.

(** Known finding "wc-resolves-to-root": a workspace's working-copy commit has a Rewritten (or
    Divergent) record whose full resolution starts with the root commit; update_wc_commits then
    asks edit(workspace, root), which fails, and the failure becomes a panic. Witness (the model
    predicts the panic; the harness replays it on the implementation): A = new([root]);
    edit(w1, A); commit; rewrite A -> A'; abandon A'; rebase_descendants(). The records are in
    the domain and the case is inside the class [known_wc_root]. *)
Definition wc_root_ops : list op :=
  [ONew [0] 1 false; OEdit 1 1; OCommit; ORewrite 1 None 2; OAbandon 2;
   ORebase (mk_opts [] 0 false false [])].
Theorem C11_wc_root_witness :
  fst (run init_state wc_root_ops []) = Panic /\
  in_domain (model_case wc_root_ops) = true /\
  okb (model_case wc_root_ops) = false /\
  known_wc_root (model_case wc_root_ops) = true.
Proof. vm_compute. auto. Qed.

(** Change ids: after rebase_descendants two distinct visible commits that are not kept in place on
    purpose share a change id only if two distinct commits of that change WITHOUT rewrite record
    were already visible before (a pre-existing divergence; this includes the two new commits of a
    recorded divergent rewrite). Side conditions (the boolean [uniq_dom_ok], evaluated per case):
    commits with a record and immutable commits are visible, there is a head, change ids are
    numbered by first occurrence. Any dependency-respecting ordering. *)
Theorem C11_change_id_unique : forall (s0 : state) (o : rebase_opts) ord (s' : state),
  J s0 ->
  (forall k r t, In (k, r) (s_pm s0) -> In t (new_parent_ids r) -> In t (scope s0 (o_imm o))) ->
  (forall name t, In (name, t) (v_bms (s_v s0)) -> Nat.odd (length t) = true) ->
  pm_get (s_pm s0) 0 = None ->
  uniq_dom_ok s0 o = true ->
  (forall order, ord (s_g s0) (s_pm s0) (find_descendants_for_rebase s0 (o_imm o)) = Ok order ->
     valid_from s0 o [] order /\ forall x, In x (find_descendants_for_rebase s0 (o_imm o)) -> In x order) ->
  rebase_descendants_with ord s0 o = Ok s' ->
  exists s1, rebase_loop_with ord s0 o = Ok s1 /\
    let sh := ancs (pg (s_g s')) (o_imm o ++ div_keys (s_pm s1)) in
    forall x y, x <> y ->
      covered (pg (s_g s')) (v_heads (s_v s')) x -> covered (pg (s_g s')) (v_heads (s_v s')) y ->
      ~ In x sh -> ~ In y sh ->
      c_change (getc (s_g s') x) = c_change (getc (s_g s') y) ->
      exists a b, a <> b /\ a < length (s_g s0) /\ b < length (s_g s0) /\
        covered (pg (s_g s0)) (v_heads (s_v s0)) a /\ covered (pg (s_g s0)) (v_heads (s_v s0)) b /\
        pm_get (s_pm s0) a = None /\ pm_get (s_pm s0) b = None /\
        c_change (getc (s_g s0) a) = c_change (getc (s_g s') x) /\
        c_change (getc (s_g s0) b) = c_change (getc (s_g s') x).
Proof.
  intros s0 o ord s' J0 Dom Odd Root U Hord H.
  destruct (uniq_dom_ok_spec s0 o (j_wf _ J0) U) as [VK [VI [HNE Chg]]].
  exact (change_id_unique_model s0 o ord s' J0 Dom Odd Root VK VI HNE Chg Hord H).
Qed.

(** THE FULL STATEMENT for the modelled rebase_descendants (the implementation's ordering), from
    boolean side conditions only: the state invariant, the domain check [dom_ok], the side
    condition [uniq_dom_ok] of the change-id clause, odd-arity bookmark targets and distinct
    bookmark / workspace names. Whenever rebase_descendants returns (i.e. outside the known class
    wc-resolves-to-root, where it panics): no orphans, identity kept, bookmarks follow, working
    copies follow, change ids unique. *)
Theorem C11_full : forall (s0 : state) (o : rebase_opts) (s' : state),
  J s0 -> dom_ok s0 o = true -> uniq_dom_ok s0 o = true ->
  (forall name t, In (name, t) (v_bms (s_v s0)) -> Nat.odd (length t) = true) ->
  NoDup (map fst (v_bms (s_v s0))) -> NoDup (map fst (v_wcs (s_v s0))) ->
  rebase_descendants s0 o = Ok s' ->
  exists s1 mapping,
    rebase_loop s0 o = Ok s1 /\ resolve_rewrite_mapping (s_pm s1) (fun _ => true) = Ok mapping /\
    let T := find_descendants_for_rebase s0 (o_imm o) in
    let sh := ancs (pg (s_g s')) (o_imm o ++ div_keys (s_pm s1)) in
    (* no orphans *)
    (forall x, covered (pg (s_g s')) (v_heads (s_v s')) x -> ~ In x sh ->
       ~ Tainted (pg (s_g s')) (nd_keys (s_pm s1)) sh x) /\
    (* identity kept *)
    (length (s_g s0) <= length (s_g s') /\
     (forall i, i < length (s_g s0) -> getc (s_g s') i = getc (s_g s0) i) /\
     forall y, length (s_g s0) <= y < length (s_g s') ->
       let c := getc (s_g s') y in
       (exists x, c_preds c = [x] /\ In x T /\
                  c_change c = c_change (getc (s_g s0) x) /\ c_desc c = c_desc (getc (s_g s0) x))
       \/ (c_preds c = [] /\ c_change c = N.of_nat y /\ c_desc c = 0%N /\ c_empty c = true)) /\
    (* bookmarks follow *)
    (forall name k, aget N.eqb name (v_bms (s_v s0)) = Some [Some k] ->
       match aget Nat.eqb k mapping with
       | Some nids =>
           rewritten_ids_with (s_pm s1) (fun _ => true) [k] = Ok nids /\
           bm_get (s_v s') name =
             (if o_delete_abandoned o && is_abandoned (pm_get (s_pm s1) k) then absent_target
              else intersperse (map Some nids) (Some k))
       | None => bm_get (s_v s') name = [Some k]
       end) /\
    (* working copies follow *)
    (forall ws k, aget N.eqb ws (v_wcs (s_v s0)) = Some k ->
       match aget Nat.eqb k mapping with
       | Some nids =>
           rewritten_ids_with (s_pm s1) (fun _ => true) [k] = Ok nids /\
           exists c, wc_get (s_v s') ws = Some c /\
             if is_abandoned (pm_get (s_pm s1) k)
             then length (s_g s1) <= c /\ c_parents (getc (s_g s') c) = nids /\ c_preds (getc (s_g s') c) = []
             else c = hd 0 nids
       | None => wc_get (s_v s') ws = Some k
       end) /\
    (* change ids unique *)
    (forall x y, x <> y ->
       covered (pg (s_g s')) (v_heads (s_v s')) x -> covered (pg (s_g s')) (v_heads (s_v s')) y ->
       ~ In x sh -> ~ In y sh ->
       c_change (getc (s_g s') x) = c_change (getc (s_g s') y) ->
       exists a b, a <> b /\ a < length (s_g s0) /\ b < length (s_g s0) /\
         covered (pg (s_g s0)) (v_heads (s_v s0)) a /\ covered (pg (s_g s0)) (v_heads (s_v s0)) b /\
         pm_get (s_pm s0) a = None /\ pm_get (s_pm s0) b = None /\
         c_change (getc (s_g s0) a) = c_change (getc (s_g s') x) /\
         c_change (getc (s_g s0) b) = c_change (getc (s_g s') x)).
Proof.
  intros s0 o s' J0 Dom U Odd NDb NDw H.
  destruct (dom_ok_facts s0 o (j_wf _ J0) Dom) as [[rank Hr] [Tg Root]].
  assert (Hord : forall order, order_commits_for_rebase (s_g s0) (s_pm s0) (find_descendants_for_rebase s0 (o_imm o)) = Ok order ->
            valid_from s0 o [] order /\ forall x, In x (find_descendants_for_rebase s0 (o_imm o)) -> In x order).
  { intros order EO. exact (order_commits_valid s0 o rank Hr order EO). }
  destruct (no_orphans_model s0 o order_commits_for_rebase s' J0 Tg Odd Root Hord H) as [s1 [E1 NO]].
  destruct (bookmarks_follow_model s0 o order_commits_for_rebase s' NDb H) as [s1b [mapping [E1b [EM BF]]]].
  destruct (wc_follows_model s0 o order_commits_for_rebase s' NDw H) as [s1w [mappingw [E1w [EMw WF]]]].
  destruct (C11_change_id_unique s0 o order_commits_for_rebase s' J0 Tg Odd Root U Hord H) as [s1u [E1u CU]].
  unfold rebase_loop in *. rewrite E1 in E1b, E1w, E1u.
  apply Ok_inj in E1b. apply Ok_inj in E1w. apply Ok_inj in E1u. subst s1b s1w s1u.
  rewrite EM in EMw. apply Ok_inj in EMw. subst mappingw.
  exists s1, mapping. split; [exact E1|]. split; [exact EM|].
  split; [exact NO|]. split; [exact (identity_model s0 o order_commits_for_rebase s' J0 Tg Odd Hord H)|].
  split; [exact BF|]. split; [exact WF|exact CU].
Qed.

(** In EVERY state reachable from the empty repository by the modelled operations (including earlier
    descendant rebases) the structural side conditions of [C11_full] hold by themselves: the state
    invariant, odd-arity bookmark targets, distinct bookmark and workspace names. What is left are
    the two boolean conditions on the records, [dom_ok] and [uniq_dom_ok]. *)
Theorem C11_full_reachable : forall (s0 : state) (o : rebase_opts) (s' : state),
  reach_all2 s0 -> dom_ok s0 o = true -> uniq_dom_ok s0 o = true ->
  rebase_descendants s0 o = Ok s' ->
  J s0 /\ (forall name t, In (name, t) (v_bms (s_v s0)) -> Nat.odd (length t) = true) /\
  NoDup (map fst (v_bms (s_v s0))) /\ NoDup (map fst (v_wcs (s_v s0))).
Proof.
  intros s0 o s' R _ _ _. destruct (reach_all2_inv s0 R) as [Js [Os [Nb Nw]]].
  split; [assumption|]. split; [exact Os|]. split; now apply nsorted_NoDup.
Qed.

Example C11_nonvacuous :
  let c := model_case
    [ONew [0] 1 false; ONew [1] 2 false; ONew [2] 3 false; ONew [1] 4 false;
     OSetBookmark 1 [Some 1]; OEdit 1 1; OCommit;
     ORewrite 1 None 5; ORebase (mk_opts [] 0 false false []); OCommit] in
  in_domain c = true /\ okb c = true /\ length (k_graph c) = 9.
Proof. vm_compute. auto. Qed.

Print Assumptions C11_new_parents_terminates.
Print Assumptions C11_new_parents_complete.
Print Assumptions C11_no_orphans_checker_spec.
Print Assumptions C11_no_orphans_old_refuted.
Print Assumptions C11_order_check_spec.
Print Assumptions C11_no_orphans.
Print Assumptions C11_no_orphans_impl_order.
Print Assumptions C11_order_valid.
Print Assumptions C11_no_orphans_rebase_descendants.
Print Assumptions C11_no_orphans_in_domain.
Print Assumptions C11_cycle_detected.
Print Assumptions C11_reachable_states_invariant.
Print Assumptions C11_change_id_unique.
Print Assumptions C11_full.
Print Assumptions C11_full_reachable.
Print Assumptions C11_identity_kept.
Print Assumptions C11_bookmarks_follow.
Print Assumptions C11_wc_follows.
Print Assumptions C11_wc_root_witness.
Print Assumptions C11_no_orphans_loop.
