(** C11 — Rewrites leave no orphans and references follow.
    Model: Model/RepoV.v (lib/src/repo.rs rebase_descendants_with_options and helpers,
    lib/src/rewrite.rs, lib/src/refs.rs, lib/src/commit_builder.rs). *)
From Verif Require Import Base.Prelude Base.DagV Model.Merge Model.RepoV Model.C11 Proofs.C10 Proofs.C11 Proofs.C11Loop.

(** rewritten_ids_with (new_parents is the instance that skips divergent records) never runs out
    of the stated fuel, whatever the mapping (cyclic or not): every key is expanded once. *)
Theorem C11_new_parents_terminates : forall pm pred old_ids,
  rewritten_ids_with pm pred old_ids <> Fuel.
Proof. exact rewritten_ids_with_terminates. Qed.

(** When it returns, the result is non-empty, every id in it is one of the given ids or a
    recorded replacement, and none of them has a (selected) record itself: the replacement chain
    was followed to its end. *)
Theorem C11_new_parents_complete : forall pm pred old_ids l,
  rewritten_ids_with pm pred old_ids = Ok l ->
  l <> [] /\
  forall x, In x l ->
    pm_filtered pm pred x = None /\
    (In x old_ids \/ exists k r, In (k, r) pm /\ In x (new_parent_ids r)).
Proof. exact rewritten_ids_with_result. Qed.

(** Meaning of the orphan clause of the checker, evaluated on the implementation's final graph
    [G] and view [v]: no visible commit outside the shield (immutable commits and ancestors of
    commits with a divergent record) is rewritten/abandoned or reaches such a commit through
    unshielded commits. *)
Theorem C11_no_orphans_checker_spec : forall s0 o G v, wf_dag (pg G) ->
  (no_orphans_b s0 o G v = true <->
   forall x, covered (pg G) (v_heads v) x ->
     ~ In x (shield s0 o G) ->
     ~ Tainted (pg G) (nd_keys (final_pm G (length (s_g s0)) (s_pm s0) (o_oracle o))) (shield s0 o G) x).
Proof. exact no_orphans_b_spec. Qed.

(** F5: on the faithful model the no-orphans statement is false. Witness: A<-F<-M<-X, rewrite
    A->A', rewrite F->F' (still on the old A), abandon M, rebase_descendants(). The records are
    in the domain, the rebase returns normally, and the visible commit X' has the rewritten
    ancestor F'. The case lies in the class [known_F5]. (Replayed on the implementation as
    corpus case 0 of the harness; see work/b-view/F5.md.) *)
Definition f5_ops : list op :=
  [ONew [0] 1 false; ONew [1] 2 false; ONew [2] 3 false; ONew [3] 4 false; OCommit;
   ORewrite 1 None 5; ORewrite 2 None 6; OAbandon 3; ORebase (mk_opts [] 0 false false []); OCommit].
Definition model_case (ops : list op) : case :=
  match run init_state ops [] with
  | (Ok s, vs) => mk_case ops 0 vs (s_g s)
  | (_, vs) => mk_case ops 2 vs []
  end.
Theorem C11_no_orphans_refuted :
  in_domain (model_case f5_ops) = true /\
  okb (model_case f5_ops) = false /\
  known_F5 (model_case f5_ops) = true /\
  exists s0 o v, case_parts (model_case f5_ops) = Some (s0, o, v) /\
                 no_orphans_b s0 o (k_graph (model_case f5_ops)) v = false.
Proof.
  split; [vm_compute; reflexivity|]. split; [vm_compute; reflexivity|].
  split; [vm_compute; reflexivity|].
  eexists. eexists. eexists. split; [vm_compute; reflexivity|vm_compute; reflexivity].
Qed.

(** No orphans after the rebase loop, outside the class F5, for EVERY processing order that
    respects the dependencies the implementation computes (a parent that is to be rebased, and a
    to-be-rebased direct replacement of a rewritten parent, come first), any history, any records,
    any options and any tree oracle. [s0] is the state when rebase_descendants is called
    (invariant [J]: well-formed graph and view), [T] the set of commits to rebase
    (find_descendants_for_rebase), [s1] the state after transform_commits' loop (before the
    references are updated). Every commit of [s1] that has no rewritten/abandoned record and is in
    scope (an ancestor of a head, a key or an immutable commit; or a commit created by the loop) is
    clean: unless shielded (immutable, or an ancestor of a commit with a divergent record) it does
    not descend, through unshielded commits, from a rewritten or abandoned commit.
    Hypotheses: [noF5] = outside the (broad) class: the direct replacement of a rewritten/abandoned
    parent of a commit to be rebased is not itself rewritten/abandoned; replacement targets are in
    scope. *)
Theorem C11_no_orphans_loop : forall (s0 : state) (o : rebase_opts),
  J s0 ->
  let T := find_descendants_for_rebase s0 (o_imm o) in
  (forall x p r t, In x T -> In p (c_parents (getc (s_g s0) x)) ->
     pm_nd (s_pm s0) p = Some r -> In t (new_parent_ids r) -> pm_nd (s_pm s0) t = None) ->
  (forall k r t, In (k, r) (s_pm s0) -> In t (new_parent_ids r) -> In t (scope s0 (o_imm o))) ->
  forall order s1,
  valid_from s0 o [] order -> (forall x, In x T -> In x order) ->
  rebase_fold o order s0 = Ok s1 ->
  forall y, y < length (s_g s1) -> (y < length (s_g s0) -> In y (scope s0 (o_imm o))) ->
    pm_nd (s_pm s1) y = None ->
    let sh := ancs (pg (s_g s1)) (o_imm o ++ div_keys (s_pm s1)) in
    ~ In y sh -> ~ Tainted (pg (s_g s1)) (nd_keys (s_pm s1)) sh y.
Proof.
  intros s0 o J0 T F5 Dom order s1 V Tall H.
  exact (proj2 (loop_clean s0 o J0 F5 Dom order s1 V Tall H)).
Qed.

(** The full statement for the model: for every operation sequence ending in a rebase whose
    records are in the domain and outside the class F5, the model's own result satisfies every
    clause of the checker. *)
Definition C11_full : Prop :=
  forall ops, in_domain (model_case ops) = true -> known_F5 (model_case ops) = false ->
    okb (model_case ops) = true.

Example C11_nonvacuous :
  let c := model_case
    [ONew [0] 1 false; ONew [1] 2 false; ONew [2] 3 false; ONew [1] 4 false;
     OSetBookmark 1 [Some 1]; OEdit 1 1; OCommit;
     ORewrite 1 None 5; ORebase (mk_opts [] 0 false false []); OCommit] in
  in_domain c = true /\ known_F5 c = false /\ okb c = true /\ length (k_graph c) = 9.
Proof. vm_compute. auto. Qed.

Print Assumptions C11_new_parents_terminates.
Print Assumptions C11_new_parents_complete.
Print Assumptions C11_no_orphans_checker_spec.
Print Assumptions C11_no_orphans_refuted.
Print Assumptions C11_no_orphans_loop.
