(** C11 — Rewrites leave no orphans and references follow.
    Model: Model/RepoV.v (lib/src/repo.rs rebase_descendants_with_options and helpers,
    lib/src/rewrite.rs, lib/src/refs.rs, lib/src/commit_builder.rs). *)
From Verif Require Import Base.Prelude Base.DagV Model.Merge Model.RepoV Model.C11 Proofs.C10 Proofs.C11.

(** rewritten_ids_with (new_parents is the instance that skips divergent records) never runs out
    of the stated fuel, whatever the mapping (cyclic or not): every key is expanded once. *)
Theorem C11_new_parents_terminates : forall pm pred old_ids,
  rewritten_ids_with pm pred old_ids <> Fuel.
Proof. exact rewritten_ids_with_terminates. Qed.

(** When it returns, the result is non-empty, every id in it is one of the given ids or a
    recorded replacement, and none of them has a (selected) record itself: the replacement chain
    was followed to its end. *)
Theorem C11_new_parents_complete : forall pm pred old_ids l,
  rewritten_ids_with pm pred old_ids = Ok l ->
  l <> [] /\
  forall x, In x l ->
    pm_filtered pm pred x = None /\
    (In x old_ids \/ exists k r, In (k, r) pm /\ In x (new_parent_ids r)).
Proof. exact rewritten_ids_with_result. Qed.

(** Meaning of the orphan clause of the checker, evaluated on the implementation's final graph
    [G] and view [v]: no visible commit outside the shield (immutable commits and ancestors of
    commits with a divergent record) is rewritten/abandoned or reaches such a commit through
    unshielded commits. *)
Theorem C11_no_orphans_checker_spec : forall s0 o G v, wf_dag (pg G) ->
  (no_orphans_b s0 o G v = true <->
   forall x, covered (pg G) (v_heads v) x ->
     ~ In x (shield s0 o G) ->
     ~ Tainted (pg G) (nd_keys (final_pm G (length (s_g s0)) (s_pm s0) (o_oracle o))) (shield s0 o G) x).
Proof. exact no_orphans_b_spec. Qed.

(** F5: on the faithful model the no-orphans statement is false. Witness: A<-F<-M<-X, rewrite
    A->A', rewrite F->F' (still on the old A), abandon M, rebase_descendants(). The records are
    in the domain, the rebase returns normally, and the visible commit X' has the rewritten
    ancestor F'. The case lies in the class [known_F5]. (Replayed on the implementation as
    corpus case 0 of the harness; see work/b-view/F5.md.) *)
Definition f5_ops : list op :=
  [ONew [0] 1 false; ONew [1] 2 false; ONew [2] 3 false; ONew [3] 4 false; OCommit;
   ORewrite 1 None 5; ORewrite 2 None 6; OAbandon 3; ORebase (mk_opts [] 0 false false []); OCommit].
Definition model_case (ops : list op) : case :=
  match run init_state ops [] with
  | (Ok s, vs) => mk_case ops 0 vs (s_g s)
  | (_, vs) => mk_case ops 2 vs []
  end.
Theorem C11_no_orphans_refuted :
  in_domain (model_case f5_ops) = true /\
  okb (model_case f5_ops) = false /\
  known_F5 (model_case f5_ops) = true /\
  exists s0 o v, case_parts (model_case f5_ops) = Some (s0, o, v) /\
                 no_orphans_b s0 o (k_graph (model_case f5_ops)) v = false.
Proof.
  split; [vm_compute; reflexivity|]. split; [vm_compute; reflexivity|].
  split; [vm_compute; reflexivity|].
  eexists. eexists. eexists. split; [vm_compute; reflexivity|vm_compute; reflexivity].
Qed.

(** The full statement for the model: for every operation sequence ending in a rebase whose
    records are in the domain and outside the class F5, the model's own result satisfies every
    clause of the checker. *)
Definition C11_full : Prop :=
  forall ops, in_domain (model_case ops) = true -> known_F5 (model_case ops) = false ->
    okb (model_case ops) = true.

Example C11_nonvacuous :
  let c := model_case
    [ONew [0] 1 false; ONew [1] 2 false; ONew [2] 3 false; ONew [1] 4 false;
     OSetBookmark 1 [Some 1]; OEdit 1 1; OCommit;
     ORewrite 1 None 5; ORebase (mk_opts [] 0 false false []); OCommit] in
  in_domain c = true /\ known_F5 c = false /\ okb c = true /\ length (k_graph c) = 9.
Proof. vm_compute. auto. Qed.

Print Assumptions C11_new_parents_terminates.
Print Assumptions C11_new_parents_complete.
Print Assumptions C11_no_orphans_checker_spec.
Print Assumptions C11_no_orphans_refuted.
