(** C25 — Checkout never destroys files it does not own.

    [run_update rn f states d] (Base/WcC.v) transcribes TreeState::update of
    lib/src/local_working_copy.rs (process_diff_entry, create_parent_dirs with the
    prev_created_path cache, remove_old_file, can_create_new_file, write_file /
    write_symlink, the parent-directory pruning loop, the reserved-name checks, placeholder
    states, merge_in) over the primitive file-system calls of Base/FsC.v. All theorems hold
    for every well-formed disk [f] whose root holds an entry with a reserved name (the
    [.jj] directory), every list [d] of diff entries with non-empty paths — in any order,
    whatever trees they came from — every list [rn] of reserved names, and also when the
    update stops early with an error or a failed debug assertion.

    Not modelled: conflicts and git submodules in trees, EOL conversion, the Ignore
    exec-bit policy, hard links and case-insensitive file systems (file identity is "same
    path"), concurrent modification of the disk during the update. *)
From Verif Require Import Base.Prelude Base.FsC Base.WcC Base.C25Chk Base.WcNames Model.C25.
From Verif Require Import Proofs.FsC Proofs.WcCore Proofs.C25Main.
Local Open Scope string_scope.
Local Open Scope list_scope.

Section Statements.
  Variable rn : list name.

  (** Every file or symbolic link that was on disk stays exactly as it was unless the old
      tree tracks a file at that very path and the diff changes or removes it; every
      directory stays unless a removed path lies below it (it is then only removed once
      empty: [C25_disk_stays_well_formed]). In particular untracked and ignored files, and
      files at paths the update does not touch, are never overwritten or deleted. *)
  Theorem C25_untouched : forall f states d q e,
    start_ok rn f -> paths_ok d -> lookup f q = Some e ->
    match e with
    | EDir => (exists en, In en d /\ is_strict_prefix q (d_path en) = true /\ d_after en = None)
              \/ lookup (o_fs (run_update rn f states d)) q = Some EDir
    | _ => (exists en, In en d /\ d_path en = q /\ d_before en <> None)
           \/ lookup (o_fs (run_update rn f states d)) q = Some e
    end.
  Proof. exact (untouched_thm rn). Qed.

  (** Whatever is on disk afterwards was there before, identical, or sits at the path of a
      diff entry or above one. *)
  Theorem C25_writes_confined : forall f states d q e,
    start_ok rn f -> paths_ok d -> lookup (o_fs (run_update rn f states d)) q = Some e ->
    lookup f q = Some e \/ exists en, In en d /\ is_prefix q (d_path en) = true.
  Proof. exact (confined_thm rn). Qed.

  Theorem C25_disk_stays_well_formed : forall f states d,
    start_ok rn f -> paths_ok d -> wf_fs (o_fs (run_update rn f states d)).
  Proof. exact (wf_thm rn). Qed.

  (** When the new tree wants a file at a path the old tree does not track, and a file or
      link that no diff entry owns stands at that path or above it, then — if the update
      succeeds at all — the path is skipped: a placeholder state is recorded for it, it is
      counted in skipped_files, and the obstacle is intact. *)
  Theorem C25_skip_not_overwrite : forall f states d st e q,
    start_ok rn f -> paths_ok d -> o_res (run_update rn f states d) = ROk st ->
    In e d -> d_before e = None -> d_after e <> None ->
    is_prefix q (d_path e) = true -> is_leaf (lookup f q) = true ->
    (forall en, In en d -> d_path en = q -> d_before en = None) ->
    has_placeholder (o_states (run_update rn f states d)) (d_path e) = true
    /\ (1 <= n_skipped st)%N
    /\ lookup (o_fs (run_update rn f states d)) q = lookup f q.
  Proof. exact (skip_thm rn). Qed.

  (** All such entries are counted. *)
  Theorem C25_skips_counted : forall f states d st,
    start_ok rn f -> paths_ok d -> o_res (run_update rn f states d) = ROk st ->
    (N.of_nat (length (filter (blocked d f) d)) <= n_skipped st)%N
    /\ forall e, In e d -> blocked d f e = true ->
         has_placeholder (o_states (run_update rn f states d)) (d_path e) = true.
  Proof. exact (run_update_skips rn). Qed.

  (** Every primitive file-system call the update issues (including the read-only lstat
      calls) targets a path all of whose proper prefixes are real directories of the
      workspace at the moment of the call: no call is ever resolved through a symbolic
      link, a file, or a missing directory, and the pruning loop never removes the
      workspace root. [prims_log_safety] and [safe_spec] say what the logged bit means. *)
  Theorem C25_no_symlink_escape : forall f states d,
    start_ok rn f -> paths_ok d ->
    Forall (fun ev => ev_safe ev = true) (o_trace (run_update rn f states d))
    /\ o_res (run_update rn f states d) <> REscape.
  Proof. exact (no_escape_thm rn). Qed.

  (** Nothing at or below a reserved name, at any depth, is created, changed or removed. *)
  Theorem C25_reserved : forall f states d q,
    start_ok rn f -> paths_ok d -> has_reserved rn q = true ->
    lookup (o_fs (run_update rn f states d)) q = lookup f q.
  Proof. exact (reserved_thm rn). Qed.

  (** The boolean checker run on the real results means exactly [case_ok]. *)
  Theorem C25_checker_spec : forall c, C25Chk.okb rn c = true <-> case_ok rn c.
  Proof. exact (okb_spec rn). Qed.

  (** And the model passes it on every input. *)
  Theorem C25_model_passes_checker : forall f states d,
    start_ok rn f -> paths_ok d ->
    let o := run_update rn f states d in
    untouched d f (o_fs o) /\ confined d f (o_fs o) /\ skipped d f (o_res o) (o_states o)
    /\ reserved_same rn f (o_fs o) /\ o_res o <> REscape
    /\ Forall (fun ev => ev_safe ev = true) (o_trace o).
  Proof. exact (run_update_case_ok rn). Qed.

  (** The hypotheses are decidable; the check evaluates them on every recorded input. *)
  Theorem C25_hypotheses_decided : forall f d,
    wf_fs_b f = true -> anchor_b rn f = true -> paths_ok_b d = true ->
    start_ok rn f /\ paths_ok d.
  Proof. exact (hyps_decided rn). Qed.
End Statements.

Check C25_untouched.
Check C25_no_symlink_escape.
Check prims_log_safety.
Check safe_spec.

(** Non-vacuity: a workspace with [.jj], an untracked file [a] and an untracked link [b]
    pointing outside; the new tree wants [a] (a file) and [b/c]. Both paths are skipped,
    both obstacles are intact, [d/e] is written, every call was safe. *)
Definition ex_fs : fs :=
  [(pth ".jj", EDir); (pth ".jj/repo", EDir); (pth "a", EFile "mine" false);
   (pth "b", ESym "../outside"); (pth "d", EDir)].
Definition ex_diff : list dentry :=
  [mkD (pth "a") None (Some (TFile "new" false));
   mkD (pth "b/c") None (Some (TFile "x" true));
   mkD (pth "d/e") None (Some (TSym "t"))].

Example C25_nonvacuous :
  wf_fs_b ex_fs = true /\ anchor_b reserved_names ex_fs = true /\ paths_ok_b ex_diff = true
  /\ let o := run_update reserved_names ex_fs [] ex_diff in
     o_res o = ROk (mkStats 3 0 0 2)
     /\ lookup (o_fs o) (pth "a") = Some (EFile "mine" false)
     /\ lookup (o_fs o) (pth "b") = Some (ESym "../outside")
     /\ lookup (o_fs o) (pth "d/e") = Some (ESym "t")
     /\ o_states o = [(pth "a", true); (pth "b/c", true); (pth "d/e", false)]
     /\ forallb ev_safe (o_trace o) = true
     /\ length (o_trace o) = 20%nat.
Proof. vm_compute. repeat split. Qed.

Print Assumptions C25_untouched.
Print Assumptions C25_skip_not_overwrite.
Print Assumptions C25_no_symlink_escape.
Print Assumptions C25_reserved.
Print Assumptions C25_checker_spec.
