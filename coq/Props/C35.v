(** C35 — Quoted symbols and strings survive the expression languages.
    Model/C35.v transcribes escape_string and StringLiteralParser::parse (lib/src/dsl_util.rs),
    format_symbol / format_string / format_remote_symbol (lib/src/revset.rs), is_identifier,
    parse_symbol and the symbol arms of parse_primary_node (lib/src/revset_parser.rs) and the
    identifier / symbol / string_literal / primary rules of the pest grammars.  Strings are
    arbitrary lists of code points.  XID_CONTINUE (pest's Unicode table) is a Section variable;
    the only thing assumed about it is its ASCII part, which every run audits on the real
    grammar. *)
From Verif Require Import Base.Prelude Gen.Tables Model.C35 Model.C35Grammar Proofs.C35 Proofs.C35Grammar.
Local Open Scope N_scope.

(** Every string: quote(escape s) followed by anything lexes as one string literal, unescapes to
    exactly [s], and leaves exactly what followed. *)
Theorem C35_string_roundtrip : forall (s rest : str),
  parse_string_literal (format_string s ++ rest) = POk s rest.
Proof. exact string_literal_roundtrip. Qed.

Section Symbols.
  Context (xidc : N -> bool).
  Hypothesis ascii_ok :
    forall c, c < 128 -> ident_part_char xidc c = true -> ascii_ident_expected c = true.

  (** format_string s parses, as a whole revset program, to the string node carrying [s]. *)
  Theorem C35_string_roundtrip_revset : forall s : str,
    parse_program_symbol xidc (format_string s) = OOk (NString s).
  Proof. exact (string_roundtrip_program xidc ascii_ok). Qed.

  (** format_symbol s parses back to the identifier node [s] when [s] is an identifier of the
      revset grammar and to the string node [s] otherwise: never to anything else. *)
  Theorem C35_symbol_roundtrip : forall s : str,
    parse_program_symbol xidc (format_symbol xidc s)
    = OOk (if is_identifier xidc s then NIdentifier s else NString s).
  Proof. exact (symbol_roundtrip xidc ascii_ok). Qed.

  (** name@remote: both parts come back exactly, whatever mix of bare and quoted parts. *)
  Theorem C35_remote_symbol_roundtrip : forall name remote : str,
    parse_program_symbol xidc (format_remote_symbol xidc name remote) = OOk (NRemote name remote).
  Proof. exact (remote_roundtrip xidc ascii_ok). Qed.

  (** name@ (workspace form, cli/src/commit_templater.rs:1795). *)
  Theorem C35_workspace_symbol_roundtrip : forall name : str,
    parse_program_symbol xidc (format_symbol xidc name ++ [64]) = OOk (NAtWorkspace name).
  Proof. exact (workspace_roundtrip xidc ascii_ok). Qed.

  (** revset::parse_symbol on format_symbol output (it rejects only the empty name). *)
  Theorem C35_parse_symbol_roundtrip : forall s : str,
    parse_symbol_name xidc (format_symbol xidc s) = match s with [] => SErr | _ => SOk s end.
  Proof. exact (parse_symbol_roundtrip xidc ascii_ok). Qed.

  (** The fileset ([fs] = true) and template ([fs] = false) grammars share the string_literal
      rule; a program consisting of format_string s is the string [s]. *)
  Theorem C35_fileset_template_roundtrip : forall (fs : bool) (s : str),
    parse_literal_program xidc fs (format_string s) = LOk s.
  Proof. exact (literal_program_roundtrip xidc ascii_ok). Qed.

  (** Consequences: formatting is injective - two different bookmark / tag / remote names never
      get the same revset text, and (name, remote) pairs never collide in the name@remote form. *)
  Theorem C35_format_symbol_injective : forall s1 s2 : str,
    format_symbol xidc s1 = format_symbol xidc s2 -> s1 = s2.
  Proof. exact (format_symbol_injective xidc ascii_ok). Qed.

  Theorem C35_format_remote_symbol_injective : forall n1 r1 n2 r2 : str,
    format_remote_symbol xidc n1 r1 = format_remote_symbol xidc n2 r2 -> n1 = n2 /\ r1 = r2.
  Proof. exact (format_remote_symbol_injective xidc ascii_ok). Qed.
End Symbols.

Theorem C35_escape_string_injective : forall s1 s2 : str,
  escape_string s1 = escape_string s2 -> s1 = s2.
Proof. exact escape_string_injective. Qed.

(** The pest rules the model is written against still read as they did. *)
Theorem C35_grammar_pinned : scraped_rules = expected_rules.
Proof. exact grammar_pinned. Qed.

(** The scraped escape / unescape arms have the shape the proofs rely on. *)
Theorem C35_tables_pinned :
  escape_table = [(34, [92; 34]); (92, [92; 92]); (9, [92; 116]); (13, [92; 114]);
                  (10, [92; 110]); (0, [92; 48])]
  /\ unescape_table = [([34], 34); ([92], 92); ([116], 9); ([114], 13); ([110], 10); ([48], 0);
                       ([101], 27)]
  /\ tables_wf = true.
Proof. exact (conj escape_table_value (conj unescape_table_value tables_wf_true)). Qed.

(** Meaning of the checker run on the implementation's outputs. *)
Theorem C35_okb_spec :
  forall name remote xid esc fstr fsym frem r_str r_sym r_rem r_ws r_ps r_fs r_tp,
  okb (CFormat name remote xid esc fstr fsym frem r_str r_sym r_rem r_ws r_ps r_fs r_tp) = true <->
  r_str = ROk (NString name)
  /\ (r_sym = ROk (NIdentifier name) \/ r_sym = ROk (NString name))
  /\ r_rem = ROk (NRemote name remote)
  /\ r_ws = ROk (NAtWorkspace name)
  /\ r_ps = match name with [] => SErr | _ => SOk name end
  /\ r_fs = LOk name /\ r_tp = LOk name.
Proof. exact okb_format_spec. Qed.

Check C35_string_roundtrip : forall (s rest : str),
  parse_string_literal (format_string s ++ rest) = POk s rest.
Check C35_symbol_roundtrip : forall (xidc : N -> bool),
  (forall c, c < 128 -> ident_part_char xidc c = true -> ascii_ident_expected c = true) ->
  forall s : str,
  parse_program_symbol xidc (format_symbol xidc s)
  = OOk (if is_identifier xidc s then NIdentifier s else NString s).
Check C35_remote_symbol_roundtrip : forall (xidc : N -> bool),
  (forall c, c < 128 -> ident_part_char xidc c = true -> ascii_ident_expected c = true) ->
  forall name remote : str,
  parse_program_symbol xidc (format_remote_symbol xidc name remote) = OOk (NRemote name remote).

(** Non-vacuity: an oracle satisfying the hypothesis (ASCII alphanumerics, '_' and everything
    from U+00C0 up), and the theorems' instances on strings with quotes, backslashes, controls,
    '@', separators at the end, and non-ASCII characters. *)
Definition demo_xidc (c : N) : bool := is_ascii_alnum c || (c =? 95) || (192 <=? c).

Example C35_nonvacuous :
  (forall c, c < 128 -> ident_part_char demo_xidc c = true -> ascii_ident_expected c = true)
  /\ format_string [97; 34; 92; 10; 0; 27; 127; 233]
     = [34; 97; 92; 34; 92; 92; 92; 110; 92; 48; 92; 120; 49; 98; 92; 120; 55; 102; 233; 34]
  /\ format_remote_symbol demo_xidc [97; 45; 45; 98] [97; 45]
     = [97; 45; 45; 98; 64; 34; 97; 45; 34]
  /\ parse_program_symbol demo_xidc [97; 45; 45; 98; 64; 34; 97; 45; 34]
     = OOk (NRemote [97; 45; 45; 98] [97; 45])
  /\ parse_program_symbol demo_xidc [34; 92; 113; 34] = OReject
  /\ is_identifier demo_xidc [97; 46; 46; 98] = false
  /\ is_identifier demo_xidc [233; 47; 42] = true.
Proof.
  split.
  - intros c Hc H. unfold ident_part_char, demo_xidc in H. unfold ascii_ident_expected.
    destruct (N.leb_spec 192 c) as [Hle|_]; [exfalso; apply (N.lt_irrefl c);
      eapply N.lt_le_trans; [exact Hc|]; eapply N.le_trans; [|exact Hle]; discriminate|].
    rewrite orb_false_r in H. rewrite <- !orb_assoc in H |- *.
    destruct (is_ascii_alnum c); [reflexivity|]. cbn [orb] in *.
    destruct (c =? 95); [reflexivity|]. cbn [orb] in *. exact H.
  - repeat split; vm_compute; reflexivity.
Qed.

Print Assumptions C35_string_roundtrip.
Print Assumptions C35_symbol_roundtrip.
Print Assumptions C35_remote_symbol_roundtrip.
