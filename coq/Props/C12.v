(** C12 — Bookmark target merges resolve only when safe.
    Property theorems only; proofs live in Proofs/C12*.v. The model ([Model/C12.v]) transcribes
    lib/src/refs.rs:108-200 on top of Model/Merge.v: a ref target is the alternating term vector
    [list (option A)] of its [Merge<Option<CommitId>>] ([None] = absent, odd length); [ancb] is the
    index's [is_ancestor]. [den t v] = (#occurrences of v as an add) - (#occurrences as a remove). *)
From Verif Require Import Base.Prelude Model.Merge Model.C12 Proofs.C02 Proofs.C12
  Proofs.C12Checker Proofs.C12Dag.
Local Open Scope Z_scope.

Section Statements.
  Context {A : Type} (eqb : A -> A -> bool) (ancb : A -> A -> bool).
  Hypothesis eqb_spec : forall x y, eqb x y = true <-> x = y.

  Notation T := (option A).
  Notation mrt := (merge_ref_targets eqb ancb).
  Notation odd l := (Nat.odd (length l) = true).

  (** One side unchanged: the other side is returned — for any targets (absent, normal or
      conflicted), whatever the ancestry relation. *)
  Theorem C12_unchanged_side : forall (left base right : list T),
    mrt base base right = right /\ mrt left base base = left.
  Proof. intros l b r. split; [exact (mrt_unchanged_left eqb ancb eqb_spec b r)|exact (mrt_unchanged_right eqb ancb eqb_spec l b)]. Qed.

  (** Both sides agree: the common value is returned. *)
  Theorem C12_agree : forall (side base : list T), mrt side base side = side.
  Proof. exact (mrt_agree eqb ancb eqb_spec). Qed.

  (** Both sides moved forward along one line of history ([b] below [x] below [y]): the
      descendant [y] is returned, whichever side holds it. Ancestry only needs to be
      antisymmetric here (it is, in a DAG). *)
  Theorem C12_fast_forward : forall (b x y : A),
    (forall u v, ancb u v = true -> ancb v u = true -> u = v) ->
    ancb b x = true -> ancb x y = true ->
    mrt [Some x] [Some b] [Some y] = [Some y] /\ mrt [Some y] [Some b] [Some x] = [Some y].
  Proof. intros b x y HA Hb Hxy. exact (mrt_fast_forward_gen eqb ancb eqb_spec (Some b) x y HA Hb Hxy). Qed.

  (** Same when the ref did not exist before and both sides created it on one line. *)
  Theorem C12_fast_forward_added : forall (x y : A),
    (forall u v, ancb u v = true -> ancb v u = true -> u = v) ->
    ancb x y = true ->
    mrt [Some x] [None] [Some y] = [Some y] /\ mrt [Some y] [None] [Some x] = [Some y].
  Proof. intros x y HA Hxy. exact (mrt_fast_forward_gen eqb ancb eqb_spec None x y HA eq_refl Hxy). Qed.

  (** "Only when safe", completely, for three pairwise distinct normal targets (the base may
      also be absent): the merge resolves exactly when one side is an ancestor of the other
      and the base is absent or an ancestor of that ancestor side — then the descendant side
      is returned; in every other case the three-term conflict is recorded, no side picked. *)
  Theorem C12_normal_spec : forall (b0 : T) (x y : A),
    x <> y -> Some x <> b0 -> Some y <> b0 ->
    mrt [Some x] [b0] [Some y] =
      if ancb x y then (if remove_ok ancb x b0 then [Some y] else [Some x; b0; Some y])
      else if ancb y x then (if remove_ok ancb y b0 then [Some x] else [Some x; b0; Some y])
      else [Some x; b0; Some y].
  Proof. exact (mrt_normal eqb ancb eqb_spec). Qed.

  (** The result never names a commit (or absence) that none of the inputs named. *)
  Theorem C12_no_invention : forall (left base right : list T) (t : T),
    odd left -> odd base -> odd right ->
    In t (mrt left base right) -> In t left \/ In t base \/ In t right.
  Proof. intros l b r t. exact (mrt_no_invention eqb ancb eqb_spec l b r t). Qed.

  (** The [find_pair_to_remove] loop ends because no pair is left, never because the model's
      fuel [length c] ran out: no further pair can be found in the result and any larger fuel gives the
      same result. *)
  Theorem C12_terminates : forall (c : list T),
    odd c ->
    find_pair_to_remove eqb ancb (non_trivial eqb ancb (length c) c) = None
    /\ forall extra, non_trivial eqb ancb (length c + extra) c = non_trivial eqb ancb (length c) c.
  Proof. exact (nt_terminates eqb ancb eqb_spec). Qed.

  (** What "no pair is left" means: for any two adds of the conflict that are equal or related
      by ancestry, no remove is absent or an ancestor of the one that would be dropped
      ([pick] names it: the ancestor, or the first of two equal adds). *)
  Theorem C12_stuck_spec : forall (c : list T),
    find_pair_to_remove eqb ancb c = None <->
    forall i1 i2 a1 a2 ai aid,
      (i1 < i2)%nat -> nth_error (adds c) i1 = Some a1 -> nth_error (adds c) i2 = Some a2 ->
      pick eqb ancb i1 a1 i2 a2 = Some (ai, aid) ->
      forall r, In r (removes c) -> remove_ok ancb aid r = false.
  Proof. exact (find_pair_none_spec eqb ancb). Qed.

  (** Otherwise a conflict, and no side silently dropped. Every result is justified in one of
      five ways: the agree rule; an unchanged side (twice); cancellation alone leaves one value
      ([Resolves], the rule of C02, on the flattened input); or the result differs from the
      flattened input's denotation exactly by a list [ds] of removed (remove, add) pairs, each
      with the remove absent or an ancestor of the removed add and the removed add equal to or
      an ancestor of an add still present in the result — and then every net-positive value of
      the input is covered by an add of the result and no further pair can be removed.
      Needs ancestry to be transitive. *)
  Theorem C12_else_conflict : forall (left base right : list T),
    (forall x y z, ancb x y = true -> ancb y z = true -> ancb x z = true) ->
    odd left -> odd base -> odd right ->
    Outcome eqb ancb left base right (mrt left base right).
  Proof. exact (mrt_outcome eqb ancb eqb_spec). Qed.
  (** Meaning of the boolean checker that every run applies to the implementation's result
      (fields of [ResultOk], Proofs/C12Checker.v): odd arity; no invented term; the three
      rules on whole targets; and, unless one of those rules applies, (i) every add/remove of
      the result is a net-positive/net-negative value of the flattened input, at most as often
      as its net count, (ii) every net-positive value of the input is an add of the result or
      an ancestor of one (no side silently dropped), (iii) no further pair can be removed, and
      (iv) a resolved result [v] is what cancellation alone leaves, or a commit of which every
      other net side is an ancestor and every net base is absent or an ancestor. *)
  Theorem C12_checker_spec : forall (left base right res : list T),
    result_okb eqb ancb left base right res = true <-> ResultOk eqb ancb left base right res.
  Proof. exact (result_okb_spec eqb ancb eqb_spec). Qed.

  (** The model's result always satisfies that meaning (transitive ancestry). *)
  Theorem C12_model_ok : forall (left base right : list T),
    (forall x y z, ancb x y = true -> ancb y z = true -> ancb x z = true) ->
    odd left -> odd base -> odd right ->
    ResultOk eqb ancb left base right (mrt left base right).
  Proof. exact (mrt_result_ok eqb ancb eqb_spec). Qed.
End Statements.

(** The case-level checker of the correspondence run. *)
Theorem C12_okb_spec : forall c : C12.case,
  C12.okb c = true <->
  c_failed c = false
  /\ ResultOk N.eqb (dag_ancb (c_dag c))
       (map to_term (c_left c)) (map to_term (c_base c)) (map to_term (c_right c))
       (map to_term (c_result c)).
Proof. exact okb_spec. Qed.

(** The ancestry the model is run with on a case ([dag_ancb], from the case's parent lists) is
    reachability along parent edges and satisfies the hypotheses the theorems above put on
    [ancb], whenever the DAG passes the well-formedness check made on every case. *)
Theorem C12_dag_ancestry : forall g : dag,
  wf_dagb g = true ->
  (forall a d, dag_ancb g a d = true <-> anc g a d)
  /\ (forall a, dag_ancb g a a = true)
  /\ (forall x y z, dag_ancb g x y = true -> dag_ancb g y z = true -> dag_ancb g x z = true)
  /\ (forall x y, dag_ancb g x y = true -> dag_ancb g y x = true -> x = y).
Proof.
  intros g H. pose proof (wf_dagb_spec g H) as W.
  exact (conj (dag_ancb_spec g W) (conj (dag_ancb_refl g)
          (conj (dag_ancb_trans g W) (dag_ancb_antisym g W)))).
Qed.

Check @C12_no_invention : forall A (eqb ancb : A -> A -> bool), (forall x y, eqb x y = true <-> x = y) ->
  forall (left base right : list (option A)) t,
  Nat.odd (length left) = true -> Nat.odd (length base) = true -> Nat.odd (length right) = true ->
  In t (merge_ref_targets eqb ancb left base right) -> In t left \/ In t base \/ In t right.
Check @C12_else_conflict : forall A (eqb ancb : A -> A -> bool), (forall x y, eqb x y = true <-> x = y) ->
  forall left base right : list (option A),
  (forall x y z, ancb x y = true -> ancb y z = true -> ancb x z = true) ->
  Nat.odd (length left) = true -> Nat.odd (length base) = true -> Nat.odd (length right) = true ->
  Outcome eqb ancb left base right (merge_ref_targets eqb ancb left base right).

(** Non-vacuity on the DAG of lib/tests/test_refs.rs (1; 2<-1; 3<-2; 4<-2; 5<-1; 6<-5; 7<-5):
    a fast-forward, a divergence that stays a conflict, a conflict resolved by a later move. *)
Local Open Scope N_scope.
Definition C12_example_dag : dag := [[]; [1]; [2]; [2]; [1]; [5]; [5]].
Example C12_nonvacuous :
  let m l b r := merge_ref_targets N.eqb (dag_ancb C12_example_dag) l b r in
  m [Some 2] [Some 1] [Some 3] = [Some 3]
  /\ m [Some 3] [Some 1] [Some 4] = [Some 3; Some 1; Some 4]
  /\ m [Some 3; Some 1; Some 4] [Some 4] [Some 3] = [Some 3]
  /\ m [Some 1] [Some 2] [Some 3] = [Some 1; Some 2; Some 3]
  /\ dag_ancb C12_example_dag 1 3 = true /\ dag_ancb C12_example_dag 3 4 = false.
Proof. vm_compute. repeat split. Qed.

Print Assumptions C12_unchanged_side.
Print Assumptions C12_fast_forward.
Print Assumptions C12_normal_spec.
Print Assumptions C12_no_invention.
Print Assumptions C12_terminates.
Print Assumptions C12_else_conflict.
Print Assumptions C12_checker_spec.
Print Assumptions C12_model_ok.
Print Assumptions C12_okb_spec.
Print Assumptions C12_dag_ancestry.
