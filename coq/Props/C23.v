(** C23 — Snapshots record exactly what is on disk.
    Model/C23.v transcribes TreeState::snapshot's walk (visit_directory, process_dir_entry,
    visit_tracked_files, process_present_file, emit_deleted_files, get_updated_tree_value) as a
    recursion over the directory tree on disk, producing the messages the real code sends on its
    channels, and the resulting tree / file-state keys. [act] is the declarative reading: what
    happens to ONE path, decided by descending along its components. Directory trees of any
    depth and width, any set of tracked paths, any sparse / auto-track patterns, any ignore
    decisions. *)
From Verif Require Import Base.Prelude Gen.Tables Model.C23 Proofs.C23 Proofs.C23Order.
From Coq Require Import Permutation.
Local Open Scope N_scope.

Section Statements.
  Context (c : cfg) (root : dnode).
  Hypothesis tracked_unique : paths_unique (map fst (c_tracked c)) = true.
  Hypothesis root_wf : wf_node root = true.

  (** The messages of the walk, path by path: a tree entry is sent for [p] iff the descent finds
      an acceptable file/symlink at [p] that is not judged clean and whose value differs from the
      tree's; [p] is reported deleted iff it is tracked (not a submodule, inside the sparse
      patterns) and the descent finds nothing acceptable; its file state is (re)recorded iff the
      descent finds something acceptable. *)
  Theorem C23_walk_messages : forall p v,
    (In (p, v) (o_upd (walk c root))
       <-> act c root [] root p = APresent v /\ clean_at c p = false /\ old_at c p <> Some v)
    /\ (In p (o_del (walk c root)) <-> act c root [] root p = ADelete)
    /\ (In p (o_seen (walk c root)) <-> exists w, act c root [] root p = APresent w).
  Proof.
    intros p v. split; [|split].
    - exact (upd_iff c root tracked_unique root_wf p v).
    - exact (del_iff c root tracked_unique root_wf p).
    - exact (seen_iff c root tracked_unique root_wf p).
  Qed.

  (** The resulting tree and file-state keys at every path. *)
  Theorem C23_model_tree : forall p,
    new_tree_at c root p =
      match act c root [] root p with
      | APresent v => if clean_at c p then old_at c p else Some v
      | ADelete => None
      | ANone => old_at c p
      end
    /\ new_tracked c root p =
      match act c root [] root p with
      | APresent _ => true
      | ADelete => false
      | ANone => is_tracked c p
      end.
  Proof.
    intros p. split.
    - exact (model_tree c root tracked_unique root_wf p).
    - exact (model_tracked c root tracked_unique root_wf p).
  Qed.

  (** C23_exact. Assuming no stale clean state (C26): after the snapshot, at EVERY path, the
      tree holds the value on disk where the descent finds an acceptable file or symlink
      (content, exec bit, symlink target), nothing where a tracked path is gone, and the old
      value everywhere else (outside the sparse patterns, ignored or not auto-tracked untracked
      files, submodules, nested repositories); and the file-state keys follow. *)
  Theorem C23_exact :
    no_stale_clean c root ->
    forall p, new_tree_at c root p = expected_at c root p
              /\ new_tracked c root p = expected_tracked c root p.
  Proof. exact (exact c root tracked_unique root_wf). Qed.

  (** The debug assertion at the end of snapshot(): file-state keys = tree paths inside the
      sparse patterns, provided it held before. *)
  Theorem C23_states_match_tree :
    no_stale_clean c root ->
    (forall p, is_tracked c p = true <-> (old_at c p <> None /\ sparse_matches c p = true)) ->
    forall p, new_tracked c root p = true
              <-> (new_tree_at c root p <> None /\ sparse_matches c p = true).
  Proof. exact (states_match_tree c root tracked_unique root_wf). Qed.
End Statements.

(** ** What the descent [act] says in the situations the property names (any depth: [dir] and
    the directory node [DDir es] at it are arbitrary). *)
Section Reading.
  Context (c : cfg) (root : dnode).

  (** A directory entry is recorded as a file exactly when: its name is not reserved, no
      submodule is recorded there, it is not a directory, it is inside the sparse patterns, it is
      tracked already or (not ignored, auto-tracked and not too large), and it is a regular file
      or a symlink. *)
  Theorem C23_recorded_entry : forall dir es nm ch v,
    find_entry nm es = Some ch ->
    (act c root dir (DDir es) [nm] = APresent v
     <-> reserved nm = false /\ is_sub c (dir ++ [nm]) = false /\ is_dir ch = false
         /\ sparse_matches c (dir ++ [nm]) = true
         /\ (is_tracked c (dir ++ [nm]) = true
             \/ (pmem (dir ++ [nm]) (c_ign_file c) = false
                 /\ prefix_matches (c_auto c) (dir ++ [nm]) = true
                 /\ (c_max_size c <? node_size ch) = false))
         /\ leaf_value ch = Some v).
  Proof.
    intros dir es nm ch v Hf. rewrite (act_leaf c root dir es nm ch Hf).
    rewrite <- classify_present_iff.
    destruct (classify c (dir ++ [nm]) nm ch) as [| | | |w]; split; try discriminate;
      try (intros H; destruct (gone_not_present c _ _ H)); congruence.
  Qed.

  (** Anything else at the entry's own path means: a tracked path is removed (this includes a
      tracked FILE that has become a DIRECTORY), an untracked one is left alone. *)
  Theorem C23_not_recorded_entry : forall dir es nm ch,
    find_entry nm es = Some ch ->
    (forall v, act c root dir (DDir es) [nm] <> APresent v) ->
    act c root dir (DDir es) [nm] = gone c (dir ++ [nm]).
  Proof.
    intros dir es nm ch Hf Hn. rewrite (act_leaf c root dir es nm ch Hf) in *.
    destruct (classify c (dir ++ [nm]) nm ch) as [| | | |w]; try reflexivity.
    destruct (Hn w eq_refl).
  Qed.

  (** Missing entries, and paths below something that is not a directory (a tracked DIRECTORY
      that has become a FILE): tracked paths are removed. *)
  Theorem C23_missing : forall dir es nm q',
    find_entry nm es = None ->
    act c root dir (DDir es) (nm :: q') = gone c (dir ++ nm :: q').
  Proof. exact (act_missing c root). Qed.

  Theorem C23_below_non_directory : forall dir es nm ch x r,
    find_entry nm es = Some ch -> is_dir ch = false ->
    act c root dir (DDir es) (nm :: x :: r) = gone c (dir ++ nm :: x :: r).
  Proof.
    intros dir es nm ch x r Hf Hd. rewrite (act_below c root dir es nm ch x r Hf).
    pose proof (classify_dir_cases c (dir ++ [nm]) nm ch) as Hc.
    destruct (classify c (dir ++ [nm]) nm ch); try reflexivity;
      destruct Hc as [es' ->]; discriminate.
  Qed.

  (** Below a sub-directory: entered (then the same rules apply one level down), pruned by the
      sparse patterns, or ignored — and below an ignored directory a path is recorded only if it
      is already tracked (then by a plain lookup of its absolute path), never added. *)
  Theorem C23_below_directory : forall dir es nm es' x r,
    find_entry nm es = Some (DDir es') ->
    reserved nm = false -> is_sub c (dir ++ [nm]) = false -> nested_repo es' = false ->
    let p1 := dir ++ [nm] in
    let p := dir ++ nm :: x :: r in
    act c root dir (DDir es) (nm :: x :: r) =
      if pmem p1 (c_ign_dir c) then tracked_only c root p
      else if prefix_visit_nothing (c_sparse c) p1 then ANone
      else act c root p1 (DDir es') (x :: r).
  Proof.
    intros dir es nm es' x r Hf Hr Hs Hn. cbv zeta.
    rewrite (act_below c root dir es nm _ x r Hf).
    set (p1 := dir ++ [nm]) in *.
    destruct (pmem p1 (c_ign_dir c)) eqn:Hi.
    - rewrite (proj2 (classify_dir_iff c p1 nm es' CIgnoredDir (or_introl eq_refl))); auto.
    - destruct (prefix_visit_nothing (c_sparse c) p1) eqn:Hv.
      + rewrite (proj2 (classify_dir_iff c p1 nm es' CPrunedDir (or_intror (or_introl eq_refl))));
          auto.
      + rewrite (proj2 (classify_dir_iff c p1 nm es' CDescend (or_intror (or_intror eq_refl))));
          auto.
  Qed.

  Theorem C23_ignored_dir_only_tracked : forall p,
    is_tracked c p = false -> tracked_only c root p = ANone.
  Proof. exact (tracked_only_untracked c root). Qed.

  (** Reserved names (.git, .jj), recorded submodules and nested repositories hide everything
      below them: tracked paths there are removed (submodule paths themselves are kept). *)
  Theorem C23_hidden : forall dir es nm ch q',
    find_entry nm es = Some ch ->
    reserved nm = true \/ is_sub c (dir ++ [nm]) = true
      \/ (exists es', ch = DDir es' /\ nested_repo es' = true) ->
    act c root dir (DDir es) (nm :: q') = gone c (dir ++ nm :: q').
  Proof.
    intros dir es nm ch q' Hf H.
    assert (Hc : classify c (dir ++ [nm]) nm ch = CSkip).
    { unfold classify. destruct (reserved nm); [reflexivity|].
      destruct (is_sub c (dir ++ [nm])); [reflexivity|].
      destruct H as [H|[H|(es' & -> & H)]]; try discriminate. rewrite H. reflexivity. }
    destruct q' as [|x r].
    - rewrite (act_leaf c root dir es nm ch Hf), Hc. reflexivity.
    - rewrite (act_below c root dir es nm ch x r Hf), Hc. reflexivity.
  Qed.

  (** Nothing is ever recorded outside the sparse patterns, and untracked paths are never
      reported deleted. *)
  Theorem C23_inside_sparse : forall q dir n v,
    act c root dir n q = APresent v -> sparse_matches c (dir ++ q) = true.
  Proof. exact (act_present_sparse c root). Qed.

  Theorem C23_untracked_never_deleted : forall q dir n,
    is_tracked c (dir ++ q) = false -> act c root dir n q <> ADelete.
  Proof. exact (act_untracked_not_deleted c root). Qed.
End Reading.

(** The result does not depend on the order in which directories list their entries (read_dir
    order is arbitrary; the real walk handles the entries of a directory in parallel): trees
    with the same entries by name at every level ([deq]) give the same snapshot, and permuting a
    directory's entries gives such a tree. *)
Theorem C23_order_independent : forall (c : cfg) (root1 root2 : dnode),
  deq root1 root2 ->
  paths_unique (map fst (c_tracked c)) = true ->
  wf_node root1 = true -> wf_node root2 = true ->
  forall p, new_tree_at c root1 p = new_tree_at c root2 p
            /\ new_tracked c root1 p = new_tracked c root2 p.
Proof. exact order_independent. Qed.

Theorem C23_listing_order : forall es1 es2,
  names_unique (map fst es1) = true -> Permutation es1 es2 -> deq (DDir es1) (DDir es2).
Proof. exact deq_perm. Qed.

(** The run-time checker judges the implementation's tree and file-state keys against
    [expected_at] / [expected_tracked] at every path of the disk, the old and new trees and
    states. *)
Theorem C23_checker_spec : forall k,
  okb k = true <->
  k_failed k = false /\
  forall p, In p (probe_paths k) ->
    plookup p (k_new_tree k) = expected_at (k_cfg k) (k_disk k) p
    /\ pmem p (k_new_tracked k) = expected_tracked (k_cfg k) (k_disk k) p.
Proof. exact okb_spec. Qed.

Check C23_exact : forall c root,
  paths_unique (map fst (c_tracked c)) = true -> wf_node root = true ->
  no_stale_clean c root ->
  forall p, new_tree_at c root p = expected_at c root p
            /\ new_tracked c root p = expected_tracked c root p.

(** Non-vacuity (the corpus scenario, was a defect): b/ becomes ignored, its subdirectory b/d is
    replaced by a regular file; the tracked files below b/d are removed, b/g stays, the new
    file b/d (untracked, below an ignored directory) is not added, .gitignore is added. *)
Example C23_nonvacuous :
  let c := mk_cfg [P ""] [P ""] 1000 [] [P "b"]
             [(P "b/d/a/g", mk_tstate false true); (P "b/d/f", mk_tstate false true);
              (P "b/g", mk_tstate false true); (P "f", mk_tstate false false)]
             [(P "b/d/a/g", TFile 6 false); (P "b/d/f", TFile 7 false);
              (P "b/g", TFile 4 false); (P "f", TFile 5 false)] in
  let root := DDir [E ".gitignore" (DFile 1 false 3);
                    E ".jj" (DDir [E "working_copy" (DDir [E "tree_state" (DFile 2 false 18)])]);
                    E "b" (DDir [E "d" (DFile 3 false 3); E "g" (DFile 4 false 3)]);
                    E "f" (DFile 9 true 3)] in
  wf_node root = true /\ paths_unique (map fst (c_tracked c)) = true
  /\ map (new_tree_at c root) [P "b/d/a/g"; P "b/d/f"; P "b/g"; P "b/d"; P ".gitignore"; P "f";
                               P ".jj/working_copy/tree_state"]
     = [None; None; Some (TFile 4 false); None; Some (TFile 1 false); Some (TFile 9 true); None]
  /\ map (expected_at c root) [P "b/d/a/g"; P "b/d/f"; P "b/g"; P "b/d"; P ".gitignore"; P "f"]
     = [None; None; Some (TFile 4 false); None; Some (TFile 1 false); Some (TFile 9 true)].
Proof. vm_compute. repeat split; reflexivity. Qed.

(** Before the repair of visit_tracked_files (fixed: C23 in known_findings.txt) the stat of
    b/d/f in this scenario — ENOTDIR, modelled by [SNotDir] — aborted the snapshot instead of
    counting as "gone". *)
Definition stat_aborted_before_fix (r : stat_res) : bool :=
  match r with SNotDir => true | _ => false end.
Example C23_old_behaviour_refuted :
  exists (root : dnode) (p : path),
    wf_node root = true /\ stat_aborted_before_fix (dstat root p) = true.
Proof.
  exists (DDir [E "b" (DDir [E "d" (DFile 3 false 3)])]), (P "b/d/f").
  vm_compute. split; reflexivity.
Qed.

Print Assumptions C23_exact.
Print Assumptions C23_walk_messages.
Print Assumptions C23_states_match_tree.
Print Assumptions C23_below_directory.
Print Assumptions C23_order_independent.
