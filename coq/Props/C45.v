(** C45 — Pushing never overwrites remote changes jj has not seen.
    Model: Model/C45.v (lib/src/refs.rs classify_ref_push_action; lib/src/git.rs push_refs,
    push_updates, RefToPush::to_git_lease; lib/src/git_subprocess.rs spawn_push,
    parse_ref_pushes).

    Partial in exactly one respect: what the remote does with one
    `--force-with-lease=<ref>:<expected> <new>:<ref>` request is Git's code (and the remote's
    hooks), not jj's. It is the oracle [srv name cur expected new = (answer, value
    afterwards)] with three answers — Accepted, LeaseRejected ("stale info"), RemoteRejected
    (the remote refused, e.g. an update hook) — constrained only by the hypotheses written
    out in each theorem ([srv_cas]: a ref changes only if its current value is the expected
    one, then to the requested value, and this is reported as Accepted — so both kinds of
    rejection leave the ref alone; [srv_accept_only]: Accepted only if the lease matched or
    the ref already had the new value; [srv_accepted]: Accepted means the ref now has the new
    value).  [git_srv deny] (the behaviour of git 2.39 observed by the correspondence runs
    against a real bare remote whose update hook refuses the names in [deny]) satisfies all
    of them ([C45_git_contract]).  Everything else — which refs are sent, with
    which lease, how the answers are read, and what is then recorded in the view — is jj's
    logic and is proved for every view, every remote state, every set of considered
    bookmarks, and so after every schedule of external updates, fetches, edits and pushes. *)
From Verif Require Import Base.Prelude Gen.Tables Model.Merge Model.C34 Model.C45 Proofs.C34 Proofs.C45.
Local Open Scope N_scope.

Section Statements.
  Context (srv : N -> N -> N -> N -> answer * N).
  Hypothesis srv_cas : forall n cur e v,
    snd (srv n cur e v) <> cur ->
    cur = e /\ snd (srv n cur e v) = v /\ fst (srv n cur e v) = Accepted.

  (** A remote ref is created, moved or deleted by a push only if its current value on the
      remote equals the position jj last recorded for it (the tracked remote-tracking
      target), only for a bookmark the push considered and reports as pushed, and its new
      value is the local bookmark. *)
  Theorem C45_cas : forall (v : jview) (remote backing : gmap) (names : list N) (n : N),
    NoDup names ->
    let q := push srv v remote backing names in
    gget (q_remote q) n <> gget remote n ->
    resolved (gget remote n) = tracked_target (rget (j_remote v) n)
    /\ resolved (gget (q_remote q) n) = get (j_local v) n
    /\ In n (q_pushed q) /\ In n names.
  Proof. exact (push_cas srv srv_cas). Qed.

  (** A ref that was not accepted (lease-rejected, refused by the remote, or not part of the
      push) keeps its value on the remote, its remote-tracking bookmark (target and tracking
      state), its recorded Git ref and its ref in the backing repository; no push ever
      changes a local bookmark; and a ref rejected in either way is never also pushed. *)
  Theorem C45_rejected_untouched : forall (v : jview) (remote backing : gmap) (names : list N) (n : N),
    NoDup names ->
    let q := push srv v remote backing names in
    j_local (q_view q) = j_local v
    /\ (~ In n (q_pushed q) ->
          gget (q_remote q) n = gget remote n
          /\ rget (j_remote (q_view q)) n = rget (j_remote v) n
          /\ get (j_grefs (q_view q)) n = get (j_grefs v) n
          /\ gget (q_backing q) n = gget backing n)
    /\ (In n (q_rejected q) \/ In n (q_remote_rejected q) -> ~ In n (q_pushed q)).
  Proof. exact (rejected_untouched srv srv_cas). Qed.

  Hypothesis srv_accept_only : forall n cur e v,
    fst (srv n cur e v) = Accepted -> cur = e \/ cur = v.

  (** If the remote's value differs from jj's record (somebody else updated it since jj last
      saw it — at any time, e.g. between jj's fetch and push) and is not already the value jj
      wants, the push does not touch it, and jj's record, the recorded Git ref and every
      local bookmark stay as they were. *)
  Theorem C45_stale_push_untouched : forall (w : world) (ns : list N) (n : N), NoDup ns ->
    resolved (gget (w_remote w) n) <> tracked_target (rget (j_remote (w_view w)) n) ->
    gget (w_remote w) n <> oid_of (get (j_local (w_view w)) n) ->
    let q := push srv (w_view w) (w_remote w) (w_backing w) ns in
    ~ In n (q_pushed q)
    /\ gget (q_remote q) n = gget (w_remote w) n
    /\ rget (j_remote (q_view q)) n = rget (j_remote (w_view w)) n
    /\ get (j_grefs (q_view q)) n = get (j_grefs (w_view w)) n
    /\ j_local (q_view q) = j_local (w_view w).
  Proof. exact (stale_push_untouched srv srv_cas srv_accept_only). Qed.

  (** Over schedules: at every position of every schedule of external updates, jj-side edits,
      track/untrack, fetches and pushes, a change of a remote ref is either an external update
      of that ref or a jj push that found the ref at exactly the recorded value. *)
  Theorem C45_every_remote_change_attributed :
    forall (anc : N -> N -> bool) (auto : bool) (steps1 : list pstep) (s : pstep) (n : N) (w0 : world),
    push_names_ok s ->
    let w := run_world srv anc auto steps1 w0 in
    gget (w_remote (step_world srv anc auto w s)) n <> gget (w_remote w) n ->
    (exists c, s = Ext n c)
    \/ (exists ns pre post pushed rejected rrejected unexported,
          s = Push ns pre post pushed rejected rrejected unexported /\ In n ns
          /\ resolved (gget (w_remote w) n) = tracked_target (rget (j_remote (w_view w)) n)
          /\ resolved (gget (w_remote (step_world srv anc auto w s)) n) = get (j_local (w_view w)) n).
  Proof. intros anc auto. exact (schedule_remote_changes_attributed srv anc auto srv_cas). Qed.
End Statements.

Section Recorded.
  Context (srv : N -> N -> N -> N -> answer * N).
  Hypothesis srv_accepted : forall n cur e v,
    fst (srv n cur e v) = Accepted -> snd (srv n cur e v) = v.

  (** Accepted refs, and only those (see [C45_rejected_untouched]), are recorded, each under
      its own (kind, name) key: afterwards jj's record (remote-tracking bookmark or tag), the
      backing repository's ref and - for bookmarks - the recorded Git ref all equal the
      remote's new value, which is the local bookmark / tag; nothing is left unexported. *)
  Theorem C45_pushed_recorded : forall (v : jview) (remote backing : gmap) (names : list N) (n : N),
    NoDup names ->
    let q := push srv v remote backing names in
    q_unexported q = []
    /\ (In n (q_pushed q) ->
        resolved (gget (q_remote q) n) = get (j_local v) n
        /\ tracked_target (rget (j_remote (q_view q)) n) = resolved (gget (q_remote q) n)
        /\ get (j_grefs (q_view q)) n =
           (if is_tag n then get (j_grefs v) n else resolved (gget (q_remote q) n))
        /\ gget (q_backing q) n = gget (q_remote q) n).
  Proof. exact (pushed_recorded srv srv_accepted). Qed.
End Recorded.

Section NoSpuriousRejection.
  Context (anc : N -> N -> bool) (auto : bool) (srv : N -> N -> N -> N -> answer * N).

  (** After a fetch the target of every remote-tracking bookmark is the remote's value. *)
  Theorem C45_fetch_records_remote : forall (v : jview) (remote : gmap) (n : N),
    r_target (rget (j_remote (fst (fetch anc auto v remote))) n) = resolved (gget remote n).
  Proof. exact (fetch_records_remote anc auto). Qed.

  Hypothesis srv_complete : forall n cur v, fst (srv n cur cur v) <> LeaseRejected.

  (** The lease never rejects without cause: if jj's records equal the remote (as after a
      fetch with no external update since), a push has no lease rejection. *)
  Theorem C45_no_spurious_rejection : forall (v : jview) (remote backing : gmap) (names : list N),
    NoDup names ->
    (forall n, r_target (rget (j_remote v) n) = resolved (gget remote n)) ->
    q_rejected (push srv v remote backing names) = [].
  Proof. exact (push_with_current_records srv srv_complete). Qed.
End NoSpuriousRejection.

(** The observed behaviour of git satisfies the assumed contract. *)
Theorem C45_git_contract : forall deny n cur e v,
  (snd (git_srv deny n cur e v) <> cur ->
     cur = e /\ snd (git_srv deny n cur e v) = v /\ fst (git_srv deny n cur e v) = Accepted)
  /\ (fst (git_srv deny n cur e v) = Accepted -> cur = e \/ cur = v)
  /\ (fst (git_srv deny n cur e v) = Accepted -> snd (git_srv deny n cur e v) = v)
  /\ fst (git_srv deny n cur cur v) <> LeaseRejected.
Proof. exact git_contract. Qed.

(** Meaning of the checker run on the states observed around every real push, and the model's
    own pushes pass it. *)
Theorem C45_checker_meaning : forall ns pre post pushed rejected n,
  push_name_ok ns pre post pushed rejected n = true <-> PushOk ns pre post pushed rejected n.
Proof. exact push_name_ok_spec. Qed.

Theorem C45_model_passes_checker :
  forall (deny : list N) (v : jview) (remote backing : gmap) (ns : list N) (n : N),
  NoDup ns ->
  let q := push (git_srv deny) v remote backing ns in
  PushOk ns (psnap_of (mk_world v remote backing))
            (psnap_of (mk_world (q_view q) (q_remote q) (q_backing q)))
            (q_pushed q) (q_rejected q ++ q_remote_rejected q) n.
Proof. exact model_push_ok. Qed.

(** Whenever the observed states agree with the model along a schedule (the correspondence
    check), the checker accepts every observed push. *)
Theorem C45_agreement_implies_property : forall (c : case),
  c_flags_ok c = true ->
  replay (ancb (c_graph c)) (c_auto_track c) (c_denied c) (c_names c) (c_steps c) empty_world = true ->
  okb c = true.
Proof. exact corr_implies_okb. Qed.

(** Source anchors of the model (scraped on every run): the lease argument is built from
    to_git_lease for every ref, the lease is "<destination>:<expected>", the refspecs are sent
    not forced, and the answer flags "+ - * = space" count as pushed, "!" as a rejection. *)
Example C45_source_anchors :
  (Tables.C45_LEASE_ARG, Tables.C45_LEASE_FORMAT, Tables.C45_REJECT_FLAG,
   Tables.C45_NOT_FORCED_REFSPEC) = (1, 1, 1, 1)
  (* "[remote rejected]" answers are filed separately, and push_refs records exactly the
     requests whose ref is in GitPushStats::pushed (bookmarks and tags: two filters) *)
  /\ (Tables.C45_REMOTE_REJECTED_PARSE, Tables.C45_RECORD_ONLY_PUSHED) = (1, 2)
  /\ Tables.C45_PUSHED_FLAGS = "b""+"" | b""-"" | b""*"" | b""="" | b"" """%string.
Proof. repeat split; reflexivity. Qed.

Check C45_cas.
Check C45_rejected_untouched.

(** Non-vacuity: jj recorded b1@origin = b2@origin = b4@origin = 2; meanwhile somebody moved
    b1 to 4 on the remote, and the remote's hook refuses name 4. jj pushes b1 -> 3 (stale:
    lease-rejected), b2 -> 3 (accepted and recorded), the new b3 -> 3 (created) and b4 -> 3
    (refused by the remote: nothing changes, nothing is recorded). *)
Example C45_nonvacuous :
  let v := mk_jview [(1, [3]); (2, [3]); (3, [3]); (4, [3])]
                    [(1, mk_rref [2] true); (2, mk_rref [2] true); (4, mk_rref [2] true)]
                    [(1, [2]); (2, [2]); (4, [2])] in
  let remote : gmap := [(1, 4); (2, 2); (4, 2)] in
  let q := push (git_srv [4]) v remote [(1, 2); (2, 2); (4, 2)] [1; 2; 3; 4] in
  q_pushed q = [2; 3] /\ q_rejected q = [1] /\ q_remote_rejected q = [4]
  /\ gget (q_remote q) 1 = 4 /\ gget (q_remote q) 2 = 3 /\ gget (q_remote q) 3 = 3
  /\ gget (q_remote q) 4 = 2
  /\ rget (j_remote (q_view q)) 1 = mk_rref [2] true
  /\ rget (j_remote (q_view q)) 2 = mk_rref [3] true
  /\ rget (j_remote (q_view q)) 3 = mk_rref [3] true
  /\ rget (j_remote (q_view q)) 4 = mk_rref [2] true
  /\ get (j_grefs (q_view q)) 4 = [2] /\ gget (q_backing q) 4 = 2
  /\ j_local (q_view q) = j_local v /\ q_unexported q = [].
Proof. vm_compute. repeat split. Qed.

Print Assumptions C45_cas.
Print Assumptions C45_rejected_untouched.
Print Assumptions C45_stale_push_untouched.
Print Assumptions C45_every_remote_change_attributed.
Print Assumptions C45_pushed_recorded.
Print Assumptions C45_model_passes_checker.
Print Assumptions C45_no_spurious_rejection.
Print Assumptions C45_agreement_implies_property.
