(** C32 — Workspace path conversion is lossless and confined.
    Model/C32.v transcribes [RepoPathBuf::parse_fs_path] / [from_relative_path],
    [RepoPath::to_fs_path], [RepoPathComponent::to_fs_name] (lib/src/repo_path.rs) and
    [normalize_path], [relative_path] (lib/src/file_util.rs) over byte strings of any length.
    [components] and [push] model std's Unix [Path::components] / [PathBuf::push]; they are
    part of the trusted base and are compared with the real std on every run. *)
From Verif Require Import Base.Prelude Model.C32 Proofs.BytesF Proofs.C32.
Local Open Scope N_scope.

(** Repository path -> file-system path -> repository path: for every working directory,
    every absolute base that normalization leaves alone and every valid repository path
    (a Rust [String]: components are UTF-8), what [to_fs_path] produces parses back to the
    same repository path. *)
Theorem C32_roundtrip : forall cwd base p q : bytes,
  has_root base = true -> normalize_comps (components base) = components base ->
  is_valid_repo_path_str p = true ->
  Forall (fun n => utf8_valid n = true) (repo_components p) ->
  to_fs_path base p = Ok q ->
  parse_fs_path cwd base q = Ok p.
Proof. exact roundtrip_valid. Qed.

(** The same for the relative spelling ([to_fs_path] from the empty base) given with the
    working directory at the base. *)
Theorem C32_roundtrip_relative : forall base p q : bytes,
  has_root base = true -> normalize_comps (components base) = components base ->
  is_valid_repo_path_str p = true ->
  Forall (fun n => utf8_valid n = true) (repo_components p) ->
  to_fs_path [] p = Ok q ->
  parse_fs_path base base q = Ok p.
Proof. exact roundtrip_relative_valid. Qed.

(** File-system path -> repository path -> file-system path: with an absolute base and an
    absolute joined input, a successfully parsed path converts back to exactly the
    (lexically normalized) location that was given. *)
Theorem C32_roundtrip_fs : forall cwd base input p : bytes,
  has_root base = true -> has_root (push cwd input) = true ->
  parse_fs_path cwd base input = Ok p ->
  is_valid_repo_path_str p = true /\
  exists q, to_fs_path base p = Ok q /\
            components q = normalize_comps (components (push cwd input)).
Proof. exact roundtrip_fs. Qed.

(** A produced repository path never has an empty, "." or ".." component (nor one with a
    separator), whatever cwd, base and input are. *)
Theorem C32_no_bad_components : forall cwd base input p : bytes,
  parse_fs_path cwd base input = Ok p ->
  is_valid_repo_path_str p = true /\
  Forall (fun n => n <> [] /\ existsb is_slash n = false /\ n <> [DOT] /\ n <> [DOT; DOT])
         (repo_components p).
Proof.
  intros cwd base input p H.
  destruct (parse_no_bad_components_valid _ _ _ _ H) as (V & G & _). split; auto.
  eapply Forall_impl; [|exact G]. intros n Hn. apply good_name_iff in Hn. exact Hn.
Qed.

(** Exactly which inputs parse, and to what: the normalized joined input must be the base's
    component sequence followed by normal (UTF-8) components only — i.e. it must lie under
    the base — and the result is exactly those components. Everything else is an error. *)
Theorem C32_parse_spec : forall cwd base input p : bytes,
  has_root base = true -> has_root (push cwd input) = true ->
  (parse_fs_path cwd base input = Ok p <->
   exists l, normalize_comps (components (push cwd input)) = components base ++ map Normal l
             /\ Forall (fun n => utf8_valid n = true) l /\ p = join_slash l).
Proof. exact parse_fs_path_spec. Qed.

(** Confinement: for EVERY base, a produced file-system path consists of the base's
    components followed by the repository path's components as normal components only
    (byte-wise it extends the base); the one exception is "." for the root path on an empty
    base. In particular it contains no "..", no root and no "." beyond those of the base. *)
Theorem C32_confined : forall base p q : bytes,
  is_valid_repo_path_str p = true -> to_fs_path base p = Ok q ->
  Forall (fun n => good_name n = true) (repo_components p) /\
  ((base = [] /\ p = [] /\ q = [DOT]) \/
   (components q = components base ++ map Normal (repo_components p) /\ exists x, q = base ++ x)).
Proof. exact confined_valid. Qed.

(** ... hence, after lexical normalization (the stack [normalize_path] builds), the
    produced path is the normalized base followed by the path's components. *)
Theorem C32_confined_normalized : forall base p q : bytes,
  is_valid_repo_path_str p = true -> to_fs_path base p = Ok q ->
  rev (fold_left norm_step (components q) []) =
  rev (fold_left norm_step (components base) []) ++ map Normal (repo_components p).
Proof. exact confined_normalized_valid. Qed.

(** Invalid components are rejected, not mapped: [to_fs_path] fails exactly when some
    component is "." or "..". *)
Theorem C32_rejects : forall base p : bytes,
  is_valid_repo_path_str p = true ->
  ((exists e, to_fs_path base p = Err e) <->
   Exists (fun n => n = [DOT] \/ n = [DOT; DOT]) (repo_components p)).
Proof. exact rejects_valid. Qed.

Theorem C32_to_fs_name_iff : forall n : bytes,
  to_fs_name n = true <->
  n <> [] /\ existsb is_slash n = false /\ n <> [DOT] /\ n <> [DOT; DOT].
Proof. intros n. rewrite to_fs_name_iff. apply good_name_iff. Qed.

(** Valid repository path strings are exactly the '/'-joins of non-empty slash-free names,
    and [RepoPath::components] recovers the names. *)
Theorem C32_valid_repo_path_iff : forall p : bytes,
  is_valid_repo_path_str p = true <->
  exists l, Forall (fun n => n <> [] /\ existsb is_slash n = false) l /\ p = join_slash l.
Proof. exact valid_repo_path_iff. Qed.

Theorem C32_repo_components_join : forall l : list bytes,
  Forall (fun n => n <> [] /\ existsb is_slash n = false) l ->
  repo_components (join_slash l) = l.
Proof. exact repo_components_join. Qed.

(** Consistency of the std oracle model used above: a buffer built by pushing components
    re-parses to the same components, so [normalize_path]'s output is read back as built. *)
Theorem C32_components_normalize_path : forall s : bytes,
  components (normalize_path s) = normalize_comps (components s).
Proof. exact components_normalize_path. Qed.

(** [normalize_path] is idempotent: the "base is left alone by normalization" hypothesis of
    [C32_roundtrip] holds for every base that is itself an output of [normalize_path]. *)
Theorem C32_normalize_idempotent : forall s : bytes,
  normalize_path (normalize_path s) = normalize_path s
  /\ normalize_comps (components (normalize_path s)) = components (normalize_path s).
Proof.
  intros s. split; [apply normalize_path_idem|].
  rewrite components_normalize_path. apply normalize_comps_idem.
Qed.

(** Meaning of the checker run on the implementation's recorded answers. *)
Theorem C32_okb_spec : forall c : case,
  okb c = true <->
  c_panicked c = false /\
  forall o, In o (c_obs c) ->
    match o with
    | OToFs base p (Ok q) =>
        let names := repo_components p in
        Forall (fun n => good_name n = true) names /\
        (components q = components base ++ map Normal names
         \/ (base = [] /\ names = [] /\ q = [DOT])) /\
        (forall cwd r, In (OParse cwd base q r) (c_obs c) -> base_ok base = true ->
                       Forall (fun n => utf8_valid n = true) names -> r = Ok p)
    | OParse cwd base input (Ok p) =>
        Forall (fun n => good_name n = true) (repo_components p) /\
        is_valid_repo_path_str p = true /\
        (has_root base = true -> has_root (push cwd input) = true ->
         exists q, lookup_tofs (c_obs c) base p = Some (Ok q) /\
                   components q = normalize_comps (components (push cwd input)))
    | _ => True
    end.
Proof. exact okb_spec. Qed.

Check C32_roundtrip : forall cwd base p q : bytes,
  has_root base = true -> normalize_comps (components base) = components base ->
  is_valid_repo_path_str p = true ->
  Forall (fun n => utf8_valid n = true) (repo_components p) ->
  to_fs_path base p = Ok q -> parse_fs_path cwd base q = Ok p.
Check C32_no_bad_components : forall cwd base input p : bytes,
  parse_fs_path cwd base input = Ok p ->
  is_valid_repo_path_str p = true /\
  Forall (fun n => n <> [] /\ existsb is_slash n = false /\ n <> [DOT] /\ n <> [DOT; DOT])
         (repo_components p).
Check C32_confined : forall base p q : bytes,
  is_valid_repo_path_str p = true -> to_fs_path base p = Ok q ->
  Forall (fun n => good_name n = true) (repo_components p) /\
  ((base = [] /\ p = [] /\ q = [DOT]) \/
   (components q = components base ++ map Normal (repo_components p) /\ exists x, q = base ++ x)).

Example C32_nonvacuous :
  (* base "/w/repo", path "a/b" <-> "/w/repo/a/b", from an unrelated cwd *)
  to_fs_path (hex "2f772f7265706f") (hex "612f62") = Ok (hex "2f772f7265706f2f612f62")
  /\ parse_fs_path (hex "2f78") (hex "2f772f7265706f") (hex "2f772f7265706f2f612f62") = Ok (hex "612f62")
  (* cwd "/w/repo/a", input "../b//./c/" -> "b/c" *)
  /\ parse_fs_path (hex "2f772f7265706f2f61") (hex "2f772f7265706f") (hex "2e2e2f622f2f2e2f632f") = Ok (hex "622f63")
  (* input "../../x" climbs out of the base: rejected *)
  /\ parse_fs_path (hex "2f772f7265706f") (hex "2f772f7265706f") (hex "2e2e2f2e2e2f78") = Err E_COMPONENT
  (* a ".." component in a repository path is rejected, not mapped *)
  /\ to_fs_path (hex "2f77") (hex "612f2e2e2f62") = Err E_FS_NAME
  (* the base is normalized in the sense of the hypothesis *)
  /\ normalize_comps (components (hex "2f772f7265706f")) = components (hex "2f772f7265706f")
  (* root path on empty base is "." and comes back *)
  /\ to_fs_path [] [] = Ok [DOT]
  /\ parse_fs_path (hex "2f77") (hex "2f77") [DOT] = Ok [].
Proof. repeat split. Qed.

Print Assumptions C32_roundtrip.
Print Assumptions C32_roundtrip_fs.
Print Assumptions C32_no_bad_components.
Print Assumptions C32_confined.
Print Assumptions C32_parse_spec.
Print Assumptions C32_okb_spec.
