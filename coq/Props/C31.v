(** C31 — Fileset expressions select the paths their definition says.
    Model/C31.v transcribes lib/src/fileset.rs: the twelve pattern kinds, the literal-prefix
    split of glob patterns, resolution relative to (cwd, base) through the C32 path model,
    [to_matcher] (grouping of patterns into Files/Prefix/Globs matchers, balanced union,
    negation as [all() ~ x]) on the C30 matcher model. Expression trees, pattern lists and
    paths are unbounded. The glob compiler/engine is the oracle [gm] (per mode, per
    (case-insensitive, text) pattern, per path relative to the literal directory). *)
From Verif Require Import Base.Prelude.
From Verif Require Model.C30 Model.C32 Proofs.C30.
From Verif Require Import Model.C31 Proofs.C31.
Local Open Scope N_scope.

(** For EVERY resolved expression and EVERY path: the matcher built by [to_matcher] says
    yes exactly when the set semantics does — file = equality, prefix = component-wise
    prefix, glob = oracle on the non-empty remainder below the literal directory, union /
    intersection / difference pointwise. *)
Theorem C31_denotes : forall (gm : bool -> pid -> rpath -> bool) (e : fexpr) (p : rpath),
  C30.matches neqb gm (to_matcher e) p = den gm e p.
Proof. exact denotes. Qed.

(** The same through resolution: whatever text-level expression resolves (from any cwd),
    its matcher has the set semantics of the resolved expression, and every path inside the
    resolved expression is a valid repository path without empty, "." or ".." components
    (patterns cannot point outside the workspace). *)
Theorem C31_resolved : forall cwd base (bad : pid -> bool) (a : ast) (e : fexpr),
  resolve cwd base bad a = C32.Ok e ->
  fexpr_ok e = true /\
  forall gm p, C30.matches neqb gm (to_matcher e) p = den gm e p.
Proof.
  intros cwd base bad a e H. split; [eapply resolve_ok; eauto | intros; apply denotes].
Qed.

(** What the cwd-relative literal kinds denote, through C32's characterisation of
    [parse_fs_path]: [cwd-file:i] (resp. [cwd:i]) resolved from [cwd] matches exactly the path
    [l] (resp. the paths with prefix [l]) where [base/l] is the lexically normalized
    [cwd/i] — for every cwd, base and input for which resolution succeeds. *)
Theorem C31_cwd_literal_denotes : forall cwd base bad (file : bool) input pt,
  C32.has_root base = true -> C32.has_root (C32.push cwd input) = true ->
  resolve_pattern cwd base bad (if file then KCwdFile else KCwd) input = C32.Ok pt ->
  exists l,
    C32.normalize_comps (C32.components (C32.push cwd input))
    = C32.components base ++ map C32.Normal l /\
    forall gm p,
      den_pattern gm pt p =
      if file then path_eqb l p
      else match C30.strip_prefix neqb l p with Some _ => true | None => false end.
Proof. exact cwd_literal_denotes. Qed.

(** Pruned tree walks see exactly the denoted set: the C30 soundness theorem applies to every
    matcher [to_matcher] can build, so a [visit] answer never hides a denoted path. *)
Theorem C31_visit_sound : forall (gm : bool -> pid -> rpath -> bool) (e : fexpr),
  (C30.uses_prefix_globs (to_matcher e) = true -> C30.gm_prefix_closed gm) ->
  forall d q, q <> [] ->
    C30.visit_allows neqb (C30.mvisit neqb gm (to_matcher e) d) q (den gm e (d ++ q)) = true.
Proof.
  intros gm e Hc d q Hq. rewrite <- denotes.
  apply (Proofs.C30.all_sound neqb neqb_spec gm); auto.
Qed.

(** The literal directory of a glob pattern: [split_glob_path] cuts the input in two, and the
    directory part contains no glob character (nor, for case-insensitive patterns, any ASCII
    letter), so the glob oracle is only ever asked about the part below a literal path. *)
Theorem C31_split_glob_path : forall (icase : bool) (input : bytes),
  fst (split_glob_path icase input) ++ snd (split_glob_path icase input) = input /\
  existsb (fun c => if icase then is_ascii_alphabetic c || is_glob_char c else is_glob_char c)
          (fst (split_glob_path icase input)) = false.
Proof. intros icase input. apply split_glob_path_by_spec. Qed.

(** The pieces [C31_denotes] rests on, for arbitrary name types: what the trees built by the
    constructors contain. *)
Theorem C31_files_tree : forall (fs : list rpath) (p : rpath),
  C30.files_matches neqb (C30.files_tree neqb fs) p = existsb (list_eqb neqb p) fs.
Proof. exact (files_tree_matches neqb neqb_spec). Qed.

Theorem C31_prefix_tree : forall (ps : list rpath) (p : rpath),
  C30.prefix_matches neqb (C30.prefix_tree neqb ps) p =
  existsb (fun q => match C30.strip_prefix neqb q p with Some _ => true | None => false end) ps.
Proof. exact (prefix_tree_matches neqb neqb_spec). Qed.

Theorem C31_globs_tree : forall (gm : bool -> pid -> rpath -> bool) pm
                                (pats : list (rpath * pid)) (p : rpath),
  C30.globs_matches neqb gm pm (C30.globs_tree neqb pats) p =
  existsb (fun dp => match C30.strip_prefix neqb (fst dp) p with
                     | Some tail => negb (C30.is_nil tail) && gm pm (snd dp) tail
                     | None => false
                     end) pats.
Proof. intros gm pm pats p. exact (globs_tree_matches neqb neqb_spec gm pm pats p). Qed.

(** The balanced union is the disjunction of its inputs; the stated fuel suffices. *)
Theorem C31_union_all : forall (gm : bool -> pid -> rpath -> bool) (ms : list matcher) (p : rpath),
  C30.matches neqb gm (union_all_matchers (length ms) ms) p
  = existsb (fun m => C30.matches neqb gm m p) ms.
Proof. intros gm ms p. apply union_all_matches. apply le_n. Qed.

(** Meaning of the checker run on the implementation's recorded answers: the real
    matcher's verdict at every recorded path is the set semantics of the real resolved
    expression (under the recorded glob verdicts). *)
Theorem C31_okb_spec : forall c : case,
  okb c = true <->
  c_panicked c = false /\
  forall e, c_resolved c = Some e ->
    fexpr_ok e = true /\
    forall p b, In (p, b) (c_matches c) -> den (gm_table (c_globs c)) e (comps p) = b.
Proof. exact okb_spec. Qed.

Check C31_denotes : forall (gm : bool -> pid -> rpath -> bool) (e : fexpr) (p : rpath),
  C30.matches neqb gm (to_matcher e) p = den gm e p.

(** Non-vacuity: [(root-glob:"a/*.c" | "b") ~ root-file:"a/x.c"] from cwd = base = "/w",
    with an oracle in which pattern "*.c" matches the single component "x.c" and "y.c". *)
Definition ex_gm (pm : bool) (g : pid) (tail : rpath) : bool :=
  match tail with
  | [n] => bytes_eqb (snd g) (hex "2a2e63") && (bytes_eqb n (hex "782e63") || bytes_eqb n (hex "792e63"))
  | _ => false
  end.
Definition ex_ast : ast :=
  ADifference (AUnionAll [APattern KRootGlob (hex "612f2a2e63"); APattern KCwdPrefixGlob (hex "62")])
              (APattern KRootFile (hex "612f782e63")).

Example C31_nonvacuous :
  exists e, resolve (hex "2f77") (hex "2f77") (fun _ => false) ex_ast = C32.Ok e
  /\ e = EDifference (EUnionAll [EPattern (FileGlob (hex "61") false (hex "2a2e63"));
                                 EPattern (PrefixPath (hex "62"))])
                     (EPattern (FilePath (hex "612f782e63")))
  /\ C30.matches neqb ex_gm (to_matcher e) [hex "61"; hex "792e63"] = true    (* a/y.c *)
  /\ C30.matches neqb ex_gm (to_matcher e) [hex "61"; hex "782e63"] = false   (* a/x.c *)
  /\ C30.matches neqb ex_gm (to_matcher e) [hex "62"; hex "7a"] = true        (* b/z *)
  /\ C30.matches neqb ex_gm (to_matcher e) [hex "63"] = false.                (* c *)
Proof. eexists. split; [reflexivity|]. repeat split. Qed.

Print Assumptions C31_denotes.
Print Assumptions C31_resolved.
Print Assumptions C31_okb_spec.
Print Assumptions C31_visit_sound.
