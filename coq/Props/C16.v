(** C16 — Operations and views round-trip and are content-addressed.
    Model/C16.v transcribes view_to_proto / view_from_proto (with the legacy bookmark form,
    merge_join_ref_views, the legacy fields and the Git-tag migration), operation_to_proto /
    operation_from_proto / read_operation of lib/src/simple_op_store.rs, and the ContentHash
    byte encoding of View and Operation (lib/src/content_hash.rs and its derive).
    Not modelled (tied by correspondence only): the prost wire format and BLAKE2b-512. *)
From Verif Require Import Base.Prelude Base.C16Lib Gen.Tables Model.C16 Proofs.C16Lib Proofs.C16.
From Coq Require Import Permutation.
Local Open Scope N_scope.

(** Every well-formed view (canonical containers, odd-arity targets — conflicted or absent at
    any position —, remote refs in both states, remotes without refs, any workspaces; no
    absent *local bookmark* target, see O3 below) is read back from what was written, for
    every iteration order of the two hash-ordered proto collections (head_ids comes from a
    HashSet, wc_commit_ids is a proto map). *)
Theorem C16_view_roundtrip : forall (v : view) (h : list bytes) (w : list (bytes * bytes)),
  wf_view v -> Permutation h (v_head_ids v) -> Permutation w (v_wc_commit_ids v) ->
  view_from_proto (with_hash_order h w (view_to_proto v)) = Ok v.
Proof. exact view_roundtrip. Qed.

(** The legacy bookmark list alone gives back the local bookmarks (this is the part of
    view_from_proto that is lossy outside [wf_view]); with no remotes it also gives back
    the (empty) remote views, which is the case in which view_from_proto uses it. *)
Theorem C16_legacy_bookmarks_roundtrip :
  forall (locals : list (bytes * target)) (rvs : list (bytes * remote_view)),
  keys_sortedb locals = true -> targets_oddb locals = true ->
  forallb (fun kv => negb (is_absent (snd kv))) locals = true ->
  forallb (fun kv => refs_okb (rv_bookmarks (snd kv)) && refs_okb (rv_tags (snd kv))) rvs = true ->
  exists rvs',
    bookmark_views_from_proto_legacy (bookmark_views_to_proto_legacy locals rvs) = Ok (locals, rvs')
    /\ (rvs = [] -> rvs' = []).
Proof. exact legacy_bookmarks_roundtrip. Qed.

(** Every well-formed operation (64-byte view id and parent ids, at least one parent — the
    assertion in write_operation) is read back by read_operation, for every iteration order
    of the attributes proto map; recorded/unrecorded/empty predecessor maps included. *)
Theorem C16_op_roundtrip : forall (o : operation) (a : list (bytes * bytes)),
  wf_op o -> Permutation a (md_attributes (op_meta o)) ->
  read_operation (with_attr_order a (operation_to_proto o)) = Ok o.
Proof. exact operation_roundtrip. Qed.

(** The hashed encoding can be decoded back, even when followed by arbitrary bytes: it is
    injective (and prefix-free). Covered fields: all seven fields of View (heads, local
    bookmarks, local tags, remote views with bookmarks and tags, targets term by term, remote
    ref states, git refs, git heads, workspace commit ids) and all fields of Operation
    (view id, parents, both timestamps with time zone, description, hostname, username,
    is_snapshot, workspace name, attributes, commit predecessors). Domain: bytes below 256,
    lengths below 2^64, timestamps within i64/i32 — always true of Rust values. *)
Theorem C16_view_dec_enc : forall (v : view) (r : bytes),
  view_enc_wfb v = true -> dec c_view (enc_view v ++ r) = Some (v, r).
Proof. exact view_dec_enc. Qed.

Theorem C16_enc_injective_view : forall v1 v2 : view,
  view_enc_wfb v1 = true -> view_enc_wfb v2 = true -> enc_view v1 = enc_view v2 -> v1 = v2.
Proof. exact view_enc_injective. Qed.

Theorem C16_op_dec_enc : forall (o : operation) (r : bytes),
  op_enc_wfb o = true -> dec c_operation (enc_operation o ++ r) = Some (o, r).
Proof. exact operation_dec_enc. Qed.

Theorem C16_enc_injective_op : forall o1 o2 : operation,
  op_enc_wfb o1 = true -> op_enc_wfb o2 = true -> enc_operation o1 = enc_operation o2 -> o1 = o2.
Proof. exact operation_enc_injective. Qed.

(** The id is [H (enc x)] for the hash function [H]: it depends only on the value, and two
    different values with the same id are a collision of [H]. *)
Theorem C16_view_id_collision : forall (H : bytes -> bytes) (v1 v2 : view),
  view_enc_wfb v1 = true -> view_enc_wfb v2 = true ->
  H (enc_view v1) = H (enc_view v2) ->
  v1 = v2 \/ (enc_view v1 <> enc_view v2 /\ H (enc_view v1) = H (enc_view v2)).
Proof. exact view_id_collision. Qed.

Theorem C16_op_id_collision : forall (H : bytes -> bytes) (o1 o2 : operation),
  op_enc_wfb o1 = true -> op_enc_wfb o2 = true ->
  H (enc_operation o1) = H (enc_operation o2) ->
  o1 = o2 \/ (enc_operation o1 <> enc_operation o2 /\ H (enc_operation o1) = H (enc_operation o2)).
Proof. exact op_id_collision. Qed.

(** Whatever view_from_proto accepts — including every legacy form — is a well-formed view
    (so the domain of the round-trip theorem is closed under reading), and can be written
    and read again unchanged. *)
Theorem C16_read_is_wf : forall p v, view_from_proto p = Ok v -> wf_view v.
Proof. exact view_from_proto_wf. Qed.

Theorem C16_reread : forall p v,
  view_from_proto p = Ok v -> view_from_proto (view_to_proto v) = Ok v.
Proof. exact view_reread. Qed.

(** The same for operations: whatever read_operation returns is well-formed and re-reads. *)
Theorem C16_read_op_is_wf : forall p o, read_operation p = Ok o -> wf_op o.
Proof. exact read_operation_wf. Qed.

Theorem C16_op_reread : forall p o,
  read_operation p = Ok o -> read_operation (operation_to_proto o) = Ok o.
Proof. exact operation_reread. Qed.

(** O3: outside [wf_view] the round trip fails — an absent local bookmark target is dropped
    by the legacy form. (jj_lib::view::View::set_local_bookmark_target removes the entry
    instead of storing an absent target; the correspondence run checks [wf_viewb] on views
    built through the real mutators.) *)
Theorem C16_absent_local_bookmark_refuted :
  exists v, wf_viewb v = false /\ view_from_proto (view_to_proto v) <> Ok v.
Proof. exact absent_local_refuted. Qed.

(** The checker run on the implementation's outputs decides exactly [case_ok]. *)
Theorem C16_okb_spec : forall c : case, okb c = true <-> case_ok c.
Proof. exact okb_spec. Qed.

Check C16_view_roundtrip : forall v h w,
  wf_view v -> Permutation h (v_head_ids v) -> Permutation w (v_wc_commit_ids v) ->
  view_from_proto (with_hash_order h w (view_to_proto v)) = Ok v.
Check C16_op_roundtrip : forall o a,
  wf_op o -> Permutation a (md_attributes (op_meta o)) ->
  read_operation (with_attr_order a (operation_to_proto o)) = Ok o.
Check C16_enc_injective_view : forall v1 v2,
  view_enc_wfb v1 = true -> view_enc_wfb v2 = true -> enc_view v1 = enc_view v2 -> v1 = v2.
Check C16_enc_injective_op : forall o1 o2,
  op_enc_wfb o1 = true -> op_enc_wfb o2 = true -> enc_operation o1 = enc_operation o2 -> o1 = o2.

(** The field order of the encoding is the declaration order scraped from the sources, and
    the id lengths demanded on read are the BLAKE2b-512 output length (64 bytes) that
    write_view / write_operation produce. *)
Example C16_field_order :
  C16_OPERATION_ID_LENGTH = 64 /\ C16_VIEW_ID_LENGTH = 64 /\
  C16_VIEW_FIELDS = ["head_ids"; "local_bookmarks"; "local_tags"; "remote_views"; "git_refs";
                     "git_heads"; "wc_commit_ids"]%string
  /\ C16_REMOTE_VIEW_FIELDS = ["bookmarks"; "tags"]%string
  /\ C16_REMOTE_REF_FIELDS = ["target"; "state"]%string
  /\ C16_REMOTE_REF_STATES = "New"%string
  /\ C16_OPERATION_FIELDS = ["view_id"; "parents"; "metadata"; "commit_predecessors"]%string
  /\ C16_METADATA_FIELDS = ["time"; "description"; "hostname"; "username"; "is_snapshot";
                            "workspace_name"; "attributes"]%string
  /\ C16_RANGE_FIELDS = ["start"; "end"]%string
  /\ C16_TIMESTAMP_FIELDS = ["timestamp"; "tz_offset"]%string.
Proof. repeat split. Qed.

(** A conflicted and an absent target, a tracked and a new remote ref, a remote without
    refs and two workspaces satisfy the hypotheses; the encoding starts with the u64-LE
    number of heads. *)
Example C16_nonvacuous :
  let v := mk_view [[1]; [2]]
                   [([97], [Some [1]; None; Some [2]])]
                   [([98], [None])]
                   [([103], mk_rv [([97], mk_rr [None; Some [3]; Some [4]] RTracked)]
                                  [([116], mk_rr [Some [5]] RNew)]);
                    ([111], mk_rv [] [])]
                   [([114], [Some [6]])]
                   [([100; 101; 102; 97; 117; 108; 116], [Some [7]])]
                   [([100], [8]); ([101], [9])] in
  wf_viewb v = true /\ view_enc_wfb v = true
  /\ view_from_proto (view_to_proto v) = Ok v
  /\ firstn 8 (enc_view v) = [2; 0; 0; 0; 0; 0; 0; 0]
  /\ (let o := mk_op (repeat 7 64) [repeat 1 64]
                     (mk_md (mk_ts (-1) 60) (mk_ts 1000123 (-330)) [97] [] [98] true (Some [])
                            [([107], [118])])
                     (Some [([1], [[2]; [3]])]) in
      wf_opb o = true /\ op_enc_wfb o = true /\ read_operation (operation_to_proto o) = Ok o).
Proof. vm_compute. repeat split. Qed.

Print Assumptions C16_view_roundtrip.
Print Assumptions C16_op_roundtrip.
Print Assumptions C16_enc_injective_view.
Print Assumptions C16_enc_injective_op.
Print Assumptions C16_read_is_wf.
Print Assumptions C16_okb_spec.
