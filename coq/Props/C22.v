(** C22 — Changed-path index agrees with tree diffs (P-part).
    Model/C22.v: [changed_paths c] = the paths whose value differs between the commit's tree
    and the (real, recorded) merge of its parents' trees; the index abstractly = start
    position + stored path sets; incremental indexing ([add_commit]), (re)building with
    [max_commits] and its pre/post ranges in u32 arithmetic ([build]); the [files(m)] filter
    through the index or through the diff.
    NOT modelled: the on-disk segment format, the segment stack and its squashing, path
    interning — tied by correspondence only through [Index::changed_paths_in_commit]. *)
From Verif Require Import Base.Prelude Model.C22 Proofs.C22.
Local Open Scope nat_scope.

(** If the stored set equals the changed paths, the index-accelerated and the diff-based
    predicate agree, for every path matcher. *)
Theorem C22_pred_equiv : forall (np : nat) (m : nat -> bool) (c : commit) (stored : list nat),
  stored = changed_paths np c -> pred_index m stored = pred_diff np m c.
Proof. intros np m c stored ->. apply pred_equiv. Qed.

(** Incremental indexing, (re)building and merging concurrent operations keep every stored
    set exact: after ANY history — commits, index builds with any [max_commits], pairs of
    concurrent operations merged by [merge_in], in any interleaving — whatever the index
    stores for a position is exactly that commit's changed paths, and the indexed range lies
    inside the commit index. *)
Theorem C22_build_exact : forall (np : nat) (steps : list tstep),
  (N.of_nat (tsizes steps) < U32MAX)%N ->
  let (cs, ix) := run_t np steps in
  (forall pos paths, cp_lookup ix pos = Some paths ->
     exists c, nth_error cs pos = Some c /\ paths = changed_paths np c) /\
  (forall s es, ix = Some (s, es) -> s + length es <= length cs).
Proof.
  intros np steps H. assert (He := run_t_exact np steps H).
  destruct (run_t np steps) as [cs ix]. exact He.
Qed.

(** ... hence file-filtered queries return the same commits with or without the index. *)
Theorem C22_files_equiv : forall (np : nat) (steps : list tstep) (m : nat -> bool) pos c,
  (N.of_nat (tsizes steps) < U32MAX)%N ->
  nth_error (fst (run_t np steps)) pos = Some c ->
  files_pred np m (snd (run_t np steps)) pos c = pred_diff np m c.
Proof.
  intros np steps m pos c H Hc. exact (files_equiv np _ _ m pos c (run_t_exact np steps H) Hc).
Qed.

(** The merge of two concurrent operations alone. *)
Theorem C22_merge_exact : forall (np : nat) cs0 A B ix1 ix2,
  exact np (cs0 ++ A) ix1 -> exact np (cs0 ++ B) ix2 ->
  exact np ((cs0 ++ A) ++ B) (merge_in (length (cs0 ++ A)) ix1 (length cs0) ix2 (length B)).
Proof. exact merge_in_exact. Qed.

(** Coverage: the indexed positions are exactly the contiguous range [start, start+len);
    a build with [max_commits] at least the number of commits indexes the whole history. *)
Theorem C22_coverage : forall s es pos,
  cp_lookup (Some (s, es)) pos <> None <-> s <= pos < s + length es.
Proof. exact cp_lookup_range. Qed.

Theorem C22_build_all : forall (np : nat) (cs : list commit) (ix : cpindex) (maxc : N),
  (N.of_nat (length cs) <= U32MAX)%N -> (N.of_nat (length cs) <= maxc)%N ->
  exact np cs ix ->
  exists es, build np cs ix maxc = Some (0, es) /\ length es = length cs.
Proof. exact build_all. Qed.

(** Meaning of the checker on the implementation's outputs. *)
Theorem C22_checker_spec : forall c : case, okb c = true ->
  length (c_stored c) = length (fst (case_run c)) /\
  (forall pos l k, nth_error (c_stored c) pos = Some (Some l) ->
     nth_error (fst (case_run c)) pos = Some k ->
     natl l = changed_paths (N.to_nat (c_npaths c)) k) /\
  c_enabled c = c_disabled c.
Proof.
  intros c H. unfold okb in H. rewrite !andb_true_iff in H. destruct H as [[[H1 H2] _] H4].
  apply Nat.eqb_eq in H1. split; [exact H1|]. split.
  - rewrite forallb_forall in H2. intros pos l k Hs Hk.
    assert (Hin : In (Some l, k) (combine (c_stored c) (fst (case_run c)))).
    { clear -Hs Hk. revert pos Hs Hk. generalize (fst (case_run c)). generalize (c_stored c).
      induction l0 as [|a t IH]; intros [|b u] [|pos] Hs Hk; cbn in *; try discriminate.
      - inversion Hs; inversion Hk; subst. now left.
      - right. eapply IH; eauto. }
    specialize (H2 _ Hin). cbn in H2.
    revert H2. generalize (natl l) (changed_paths (N.to_nat (c_npaths c)) k).
    induction l0 as [|x t IH]; intros [|y u]; cbn; try congruence.
    rewrite andb_true_iff, Nat.eqb_eq. intros [-> Ht]. f_equal. auto.
  - revert H4. generalize (c_enabled c) (c_disabled c).
    assert (Hl : forall a b : list N, list_eqb N.eqb a b = true -> a = b).
    { induction a as [|x t IH]; intros [|y u]; cbn; try congruence.
      rewrite andb_true_iff, N.eqb_eq. intros [-> Ht]. f_equal. auto. }
    induction l as [|x t IH]; intros [|y u]; cbn; try congruence.
    rewrite andb_true_iff. intros [Hx Ht]. f_equal; auto.
Qed.

(** Non-vacuity: enable late with max_commits = 1, add a commit, rebuild everything. *)
Definition C22_ex_steps : list step :=
  [SCommit (mk_commit [0; 0]%N [0; 0]%N); SCommit (mk_commit [1; 0]%N [0; 0]%N);
   SCommit (mk_commit [1; 2]%N [1; 0]%N); SBuild 1; SCommit (mk_commit [3; 2]%N [1; 2]%N);
   SBuild 4294967295].
Example C22_nonvacuous :
  snd (run 2 (firstn 5 C22_ex_steps)) = Some (2, [[1]; [0]]) /\
  snd (run 2 C22_ex_steps) = Some (0, [[]; [0]; [1]; [0]]) /\
  (* two concurrent operations on an enabled index: both sides' paths survive the merge *)
  snd (run_t 2 [TOne (SCommit (mk_commit [0; 0]%N [0; 0]%N)); TOne (SBuild 0);
                TFork [SCommit (mk_commit [1; 0]%N [0; 0]%N)]
                      [SCommit (mk_commit [0; 2]%N [0; 0]%N)]])
  = Some (1, [[0]; [1]]).
Proof. repeat split; vm_compute; reflexivity. Qed.

Print Assumptions C22_pred_equiv.
Print Assumptions C22_build_exact.
Print Assumptions C22_files_equiv.
Print Assumptions C22_checker_spec.
