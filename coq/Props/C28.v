(** C28 — Ignore rules behave like Git's (P-part).
    PROVED here: the part jj owns. For ANY per-pattern match function [pm] (the engine jj
    delegates to), any ignore files at any directory levels, any global excludes and any path:
    jj's chain of ignore files (GitIgnoreFile::chain / matches) used the way the snapshot walk
    uses it (one more file per entered directory, stop at the first ignored directory) decides
    "ignored" exactly as the declarative rule of gitignore(5): the ignore files of the ancestor
    directories apply, deepest first, then the global excludes; the first of them with a matching
    pattern decides by its LAST matching pattern (negated = re-included); and a path below an
    excluded directory is excluded whatever else matches.
    NOT proved (cannot be: Git's semantics is its implementation): that the pattern language of
    the engine (parsing and wildmatch, Model/C28.v part (ii)) is Git's. That is validated on
    every run three ways: the Gallina matcher vs jj vs `git check-ignore`. *)
From Verif Require Import Base.Prelude Model.C28 Proofs.C28.
Local Open Scope N_scope.

(** The full property, for reference: with the engine's pattern matcher [engine_pm] on the
    patterns [engine_parse] reads from the ignore files, jj's decision equals Git's own
    ([git_answer] is Git itself, not definable here). *)
Definition C28_full
  (engine_parse : bytes -> list pattern) (engine_pm : pattern -> path -> bool -> bool)
  (git_answer : list (path * bytes) -> bytes -> path -> bool -> bool) : Prop :=
  forall (files : list (path * bytes)) (base : bytes) (p : path) (is_dir : bool),
    jj_ignored engine_pm p_negative
               (map (fun e => (fst e, engine_parse (snd e))) files) (engine_parse base) p is_dir
    = git_answer files base p is_dir.

Section Statements.
  Context {pat : Type} (pm : pat -> path -> bool -> bool) (negative : pat -> bool).

  Theorem C28_stack_semantics_partial :
    forall (st : stack) (base : list pat) (p : path) (is_dir : bool),
      jj_ignored pm negative st base p is_dir = git_ignored pm negative st base p is_dir.
  Proof. exact (stack_semantics pm negative). Qed.

  (** The vocabulary of the declarative rule. [ancestor_dirs p] are exactly the proper non-empty
      prefixes of [p]; [last_match] picks the last matching pattern of a file. *)
  Theorem C28_ancestor_dirs : forall (p x : path),
    In x (ancestor_dirs p) <-> exists a r, a <> [] /\ r <> [] /\ p = a ++ r /\ x = a.
  Proof. intros p x. exact (dirs_between_spec p [] x). Qed.

  Theorem C28_last_match : forall (pats : list pat) (rel : path) (is_dir : bool) (m : pat),
    last_match pm pats rel is_dir = Some m <->
    exists l1 l2, pats = l1 ++ m :: l2 /\ pm m rel is_dir = true
                  /\ forall x, In x l2 -> pm x rel is_dir = false.
  Proof. exact (last_match_spec pm). Qed.

  (** A chain decides by its newest file that has a match (the files flattened along the
      parent links, newest first). *)
  Theorem C28_chain_newest_first : forall (g : gi) (p : path) (is_dir : bool),
    gi_matches pm negative g p is_dir = dflt (flat_decision pm negative (flat g) p is_dir).
  Proof. exact (gi_matches_flat pm negative). Qed.
End Statements.

(** Part (ii), internal consistency only: the executable wildmatch decides exactly the
    declarative relation [Matches] (literal, ?, class, star = slash-free run, trailing globstar =
    anything, globstar before a slash = zero directories or anything up to a slash). Whether
    [Matches] (with the tokenizer and the line parser) is Git's language is validated, not
    proved. *)
Theorem C28_wm_spec : forall (ts : list token) (t : bytes), wm ts t = true <-> Matches ts t.
Proof. exact wm_spec. Qed.

Check @C28_stack_semantics_partial : forall (pat : Type) (pm : pat -> path -> bool -> bool)
  (negative : pat -> bool) (st : stack) (base : list pat) (p : path) (is_dir : bool),
  jj_ignored pm negative st base p is_dir = git_ignored pm negative st base p is_dir.

(** Non-vacuity of part (ii): the Gallina pattern reading on a few classic cases, and a stack
    where a deeper file re-includes what the root excludes but cannot re-include below an
    excluded directory. *)
Example C28_nonvacuous :
  let pf s := parse_file (string_bytes s) in
  let nl := String (Ascii.ascii_of_N 10) EmptyString in
  let st := [(P "", pf ("*.o" ++ nl ++ "build/" ++ nl)); (P "a", pf ("!keep.o" ++ nl));
             (P "build", pf ("!keep.o" ++ nl))]%string in
  map (fun q => jj_ignored pm_model p_negative st [] (fst q) (snd q))
      [(P "x.o", false); (P "a/x.o", false); (P "a/keep.o", false); (P "build", true);
       (P "build/keep.o", false); (P "build", false); (P "a/b/c.txt", false)]
  = [true; true; false; true; true; false; false]
  /\ map (fun pt => pattern_matches
                      (match parse_line (string_bytes (fst pt)) with
                       | Some p => p | None => mk_pattern [] false false false false end)
                      (string_bytes (fst (snd pt))) (snd (snd pt)))
         [("**/f", ("a/b/f", false)); ("a/**/f", ("a/f", false)); ("a/**", ("a", true));
          ("*.o", ("d/x.o", false)); ("/f", ("d/f", false)); ("f/", ("f", false));
          ("[!x].o", ("x.o", false)); ("foo\ ", ("foo ", false)); ("a*b", ("a/b", false));
          ("x**.o", ("xy.o", false)); ("\#h", ("#h", false))]%string
     = [true; true; false; true; false; false; false; true; false; true; true].
Proof. vm_compute. split; reflexivity. Qed.

Print Assumptions C28_stack_semantics_partial.
Print Assumptions C28_last_match.
Print Assumptions C28_wm_spec.
