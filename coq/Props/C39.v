(** C39 — Log graph edges preserve ancestry.
    Model/C39.v is the reference definition of RevsetGraphWalk
    (lib/src/default_index/revset_graph_iterator.rs): [graph_walk g (ancsets g) shown skip]
    is the stream of (node, edges) for the shown set, with and without
    skip_transitive_edges. [vreach g shown p a]: [a] is reached from [p] by one parent step
    followed by parent steps out of unshown commits only; [noshown g shown a]: [a] has no shown
    ancestor; [reach]: reachability through emitted non-missing edges. *)
From Verif Require Import Base.Prelude Base.DagI Model.C39 Proofs.C39.
Local Open Scope nat_scope.

Section Statements.
  Variable g : graph.
  Hypothesis W : wf g.
  Variable shown : list nat.
  Variable skip : bool.
  Notation t := (ancsets g).

  (** Nodes: exactly the shown commits, newest (largest index position) first; since every
      ancestor has a smaller position, every commit comes before its ancestors. *)
  Theorem C39_order :
    map fst (graph_walk g t shown skip) = filter (is_shown shown) (rev (seq 0 (length g))) /\
    (forall x y, In x shown -> In y shown -> anc g y x -> y <> x -> y < x).
  Proof. exact (order_thm g W shown skip). Qed.

  (** A direct edge points to a parent that is shown. *)
  Theorem C39_direct_is_parent : forall x a,
    In (a, Direct) (node_edges g t shown skip x) -> In a (parents g x) /\ In a shown.
  Proof. exact (direct_is_parent g W shown skip). Qed.

  (** An indirect edge points to a shown ancestor reached from an unshown parent through
      unshown commits only (a nearest shown ancestor). *)
  Theorem C39_indirect : forall x a,
    In (a, Indirect) (node_edges g t shown skip x) ->
    In a shown /\ exists p, In p (parents g x) /\ ~ In p shown /\ vreach g shown p a.
  Proof. exact (indirect_via_unshown g W shown skip). Qed.

  (** A missing edge points outside the shown set, to a commit reached through unshown
      commits only that has no shown ancestor at all. *)
  Theorem C39_missing : forall x a,
    In (a, Missing) (node_edges g t shown skip x) ->
    ~ In a shown /\ ureach g shown x a /\ noshown g shown a.
  Proof. exact (missing_outside g W shown skip). Qed.

  (** Ancestry between shown commits is exactly reachability through the emitted
      non-missing edges — with and without skipping transitive edges. *)
  Theorem C39_ancestry_implied : forall x y, In x shown -> In y shown ->
    (anc g y x <-> reach g shown skip x y).
  Proof. exact (ancestry_implied g W shown skip). Qed.

  (** The checker applied to the implementation's stream: acceptance means the recorded
      stream has order, edge meaning and exact ancestry. *)
  Theorem C39_checker_sound : forall stream,
    stream_ok g t shown stream = true -> stream_holds g shown stream.
  Proof. exact (checker_sound_thm g W shown). Qed.

  (** The adapters of lib/src/graph.rs that `jj log` puts on top of the stream, judged on
      their real output: after TopoGroupedGraph the nodes are the same (with the same edges)
      and a shown commit still comes before each of its shown ancestors; reverse_graph lists
      the nodes in reverse order and turns every edge between two nodes around. *)
  Theorem C39_adapters : forall (stream topo rv : stream_t),
    stream_holds g shown stream ->
    (topo_ok stream topo = true ->
       (forall nd, In nd topo -> In nd stream) /\ NoDup (map fst topo) /\
       (forall x, In x (map fst stream) -> In x (map fst topo)) /\
       forall x y, In x shown -> In y shown -> x < length g -> anc g y x -> y <> x ->
                   posn (map fst topo) x < posn (map fst topo) y) /\
    (reverse_ok stream rv = true ->
       map fst rv = rev (map fst stream) /\
       forall x y k, (In (x, y, k) (edge_triples stream) /\ In y (map fst stream)) <->
                     In (y, x, k) (edge_triples rv)).
  Proof. exact (adapters_thm g W shown). Qed.

  (** prioritize_branch(x): the output is still the same nodes in an edge-respecting order
      ([topo_ok], see C39_adapters) and its first node is x or a descendant of x - it reaches x
      through recorded non-missing edges. *)
  Theorem C39_prioritize : forall (stream out : stream_t) (x : nat),
    stream_holds g shown stream -> prio_ok g stream out x = true ->
    exists h es rest, out = (h, es) :: rest /\ sreach stream h x /\ anc g x h.
  Proof. exact (prio_ok_sound g W shown). Qed.
End Statements.

Check C39_ancestry_implied : forall (g : graph), wf g -> forall (shown : list nat) (skip : bool)
  (x y : nat), In x shown -> In y shown -> (anc g y x <-> reach g shown skip x y).

(** The example of the source comment: A(5) -> B(4), c(3); B -> d(1), E(2); c -> E; shown
    {A, B, E}. Without skipping, A has an indirect edge to E; with skipping it is dropped
    because E is reachable via B. *)
Example C39_nonvacuous :
  let g := [[]; [0]; [0]; [2]; [1; 2]; [4; 3]] in
  wfb g = true /\
  graph_walk g (ancsets g) [5; 4; 2] false =
    [(5, [(4, Direct); (2, Indirect)]); (4, [(1, Missing); (2, Direct)]); (2, [(0, Missing)])] /\
  graph_walk g (ancsets g) [5; 4; 2] true =
    [(5, [(4, Direct)]); (4, [(1, Missing); (2, Direct)]); (2, [(0, Missing)])] /\
  stream_ok g (ancsets g) [5; 4; 2] (graph_walk g (ancsets g) [5; 4; 2] true) = true.
Proof. vm_compute. repeat split. Qed.

Print Assumptions C39_order.
Print Assumptions C39_indirect.
Print Assumptions C39_ancestry_implied.
Print Assumptions C39_checker_sound.
Print Assumptions C39_adapters.
Print Assumptions C39_prioritize.
