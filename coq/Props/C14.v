(** C14 — The operation-head store never loses a published operation.

    Model: Model/C14.v (op DAG, heads directory, advisory lock, processes running
    publish = lock; add new; remove parents; unlock   and
    resolve = read; [one head: done]; lock; read; filter ancestors; merge; add; remove old; unlock,
    one atomic step per observation point of lib/src/simple_op_heads_store.rs,
    lib/src/op_heads_store.rs, lib/src/transaction.rs).
    All statements quantify over every schedule (a list of events of any length naming any
    number of processes; a process that is never named again has crashed), over both lock
    regimes [lw], over every removal order, and — except where [atomic] is required — over
    directory reads that return ARBITRARY sets of stored operation ids. *)
From Verif Require Import Base.Prelude Base.SchedS Model.C14 Proofs.C14.

(** Readers always find at least one head. *)
Theorem C14_nonempty : forall lw g H ps sched,
  init_ok g H ps ->
  s_heads (run (step lw) sched (init_state g H ps)) <> [].
Proof. intros lw g H ps sched Hi. apply nonempty_general. apply init_Inv. exact Hi. Qed.

(** What is reachable from the heads directory never shrinks. *)
Theorem C14_cov_monotone : forall lw g H ps sched1 sched2 n,
  init_ok g H ps ->
  let s1 := run (step lw) sched1 (init_state g H ps) in
  let s2 := run (step lw) (sched1 ++ sched2) (init_state g H ps) in
  Cov (s_dag s1) (s_heads s1) n -> Cov (s_dag s2) (s_heads s2) n.
Proof. intros lw g H ps sched1 sched2 n Hi. apply covered_general. apply init_Inv. exact Hi. Qed.

(** Every operation that is a head at some moment stays reachable from the heads at every
    later moment. *)
Theorem C14_covered : forall lw g H ps sched1 sched2 n,
  init_ok g H ps ->
  In n (s_heads (run (step lw) sched1 (init_state g H ps))) ->
  let s2 := run (step lw) (sched1 ++ sched2) (init_state g H ps) in
  Cov (s_dag s2) (s_heads s2) n.
Proof.
  intros lw g H ps sched1 sched2 n Hi Hin. apply covered_general; [apply init_Inv; exact Hi|].
  apply Cov_head. exact Hin.
Qed.

(** In particular every published operation: the step labelled [LAdd n] (add_op_head(n) of
    update_op_heads) makes [n] covered for ever. *)
Theorem C14_published_covered : forall lw g H ps sched1 e sched2 n,
  init_ok g H ps ->
  snd (step_lbl lw (run (step lw) sched1 (init_state g H ps)) e) = LAdd n ->
  let s2 := run (step lw) ((sched1 ++ [e]) ++ sched2) (init_state g H ps) in
  Cov (s_dag s2) (s_heads s2) n.
Proof.
  intros lw g H ps sched1 e sched2 n Hi Hl. apply covered_general; [apply init_Inv; exact Hi|].
  apply Cov_head. rewrite Proofs.SchedS.run_app. simpl. apply add_label_in_heads. exact Hl.
Qed.

(** With atomic directory reads no process ever takes the "no head operation" error path
    (get_op_heads' Err / the assert in resolve_op_heads are unreachable). *)
Theorem C14_reader_never_fails : forall lw g H ps sched,
  init_ok g H ps -> Forall atomic sched ->
  Forall (fun p => p_pc p <> PFailed /\ p_pc p <> PUnlock false)
         (s_procs (run (step lw) sched (init_state g H ps))).
Proof.
  intros lw g H ps sched Hi Ha.
  apply (run_no_fail lw sched _ Ha (init_Inv _ _ _ Hi) (init_no_fail g H ps)).
Qed.

(** Quiescence: after ANY history, a process that only loads the repo and runs alone (its
    lock acquisition not blocked by a dead holder: lock ineffective or free) ends with
    exactly one head, which it returns and from which every operation that was reachable
    from the heads — hence every published one — descends. *)
Theorem C14_quiescent : forall lw g H ps sched pid c evs,
  init_ok g H ps ->
  let s := run (step lw) sched (init_state g H ps) in
  nth_error (s_procs s) pid = Some (mk_proc PIdle [CLoad] c) ->
  (lw = false \/ s_lock s = None) ->
  Forall (solo pid) evs -> 2 * length (s_heads s) + 6 <= length evs ->
  let s' := run (step lw) evs s in
  exists h, s_heads s' = [h]
    /\ nth_error (s_procs s') pid = Some (mk_proc PIdle [] h)
    /\ (forall x, Cov (s_dag s) (s_heads s) x -> anc (s_dag s') x h).
Proof.
  intros lw g H ps sched pid c evs Hi s Hn Hl Hs Hlen.
  apply (quiescent lw s pid c); auto. apply run_Inv. apply init_Inv. exact Hi.
Qed.

(** The same for the model's crash-everybody-then-load function used by the correspondence
    check: all processes stop for ever, the OS drops their flock, a fresh process loads. *)
Theorem C14_crash_then_load : forall lw g H ps sched,
  init_ok g H ps ->
  let s := run (step lw) sched (init_state g H ps) in
  let s' := final_load lw s in
  exists h, s_heads s' = [h]
    /\ nth_error (s_procs s') (length (s_procs s)) = Some (mk_proc PIdle [] h)
    /\ (forall x, Cov (s_dag s) (s_heads s) x -> anc (s_dag s') x h).
Proof.
  intros lw g H ps sched Hi s. apply final_load_ok. apply run_Inv. apply init_Inv. exact Hi.
Qed.

(** Meaning of the boolean checker run on the IMPLEMENTATION's observations: the real op DAG
    is acyclic; at every observed moment the real heads directory is non-empty and covers
    every operation that was a head at that or any earlier moment; after the crash of all
    processes a fresh load succeeds, leaves exactly one head and that head descends from
    every operation that ever was a head. *)
Theorem C14_okb_spec : forall c, okb c = true <-> obs_ok c.
Proof. exact okb_spec. Qed.

Check C14_nonempty : forall lw g H ps sched, init_ok g H ps ->
  s_heads (run (step lw) sched (init_state g H ps)) <> [].
Check C14_covered : forall lw g H ps sched1 sched2 n, init_ok g H ps ->
  In n (s_heads (run (step lw) sched1 (init_state g H ps))) ->
  let s2 := run (step lw) (sched1 ++ sched2) (init_state g H ps) in
  Cov (s_dag s2) (s_heads s2) n.

(** Non-vacuity: two publishers from op 0 without a working lock, interleaved so that both
    add before either removes; the directory passes through {0,1,2} and ends divergent
    {1,2}; a load then merges them into op 3 = merge(1,2). *)
Example C14_nonvacuous :
  let s0 := init_state [[]] [0] [(0, [CCommit]); (0, [CCommit]); (0, [CLoad])] in
  let ev p := mk_ev p 0 None in
  let s1 := run (step false) (map ev [0; 1; 0; 1; 0; 1; 0; 1; 0; 1]) s0 in
  let s2 := run (step false) (map ev [2; 2; 2; 2; 2; 2; 2; 2]) s1 in
  init_ok [[]] [0] [(0, [CCommit]); (0, [CCommit]); (0, [CLoad])]
  /\ s_heads (run (step false) (map ev [0; 1; 0; 1; 0; 1]) s0) = [0; 1; 2]
  /\ s_heads s1 = [1; 2]
  /\ s_heads s2 = [3] /\ s_dag s2 = [[]; [0]; [0]; [1; 2]].
Proof.
  cbv zeta. split; [|vm_compute; repeat split].
  unfold init_ok. split; [|split; [discriminate|split; [repeat constructor; intros []|split]]].
  - intros i p Hp. destruct i as [|[|i]]; simpl in Hp; destruct Hp.
  - intros h [<-|[]]. simpl. auto.
  - intros cp Hcp. simpl in Hcp. destruct Hcp as [<-|[<-|[<-|[]]]]; simpl; auto.
Qed.

Print Assumptions C14_nonempty.
Print Assumptions C14_covered.
Print Assumptions C14_quiescent.
Print Assumptions C14_okb_spec.
