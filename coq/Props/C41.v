(** C41 — Undo and restore return the repository to the earlier state.
    Model/C41.v transcribes cli/src/commands/undo.rs, redo.rs, operation/restore.rs,
    operation/revert.rs and [view_with_desired_portions_restored] (operation/mod.rs); the
    description prefixes are scraped from those sources (Gen/Tables.v). *)
From Coq Require Import Lia.
From Verif Require Import Base.Prelude Model.Merge Gen.Tables Model.C41 Proofs.C41.
Local Open Scope string_scope.

(** `jj op restore t`: the new operation has the current operation as only parent, and its
    view takes heads, bookmarks, tags and working-copy pointers from [t] when the repo
    portion is requested, remote-tracking state from [t] when that portion is requested,
    and ALWAYS keeps the current Git refs / Git HEADs. *)
Theorem C41_restore : forall log hid h t wr wm top,
  get log t = Some top ->
  exists v, cmd_restore log hid h t wr wm
            = RNew [hid] (RESTORE_OP_DESC_PREFIX ++ idstr t) (total v) true
  /\ (wr = true -> v_heads v = v_heads (o_view top) /\ v_bookmarks v = v_bookmarks (o_view top)
                   /\ v_tags v = v_tags (o_view top) /\ v_wc v = v_wc (o_view top))
  /\ (wr = false -> v_heads v = v_heads (o_view h) /\ v_bookmarks v = v_bookmarks (o_view h)
                    /\ v_tags v = v_tags (o_view h) /\ v_wc v = v_wc (o_view h))
  /\ v_remotes v = v_remotes (o_view (if wm then top else h))
  /\ v_git_refs v = v_git_refs (o_view h) /\ v_git_heads v = v_git_heads (o_view h).
Proof.
  intros log hid h t wr wm top Hg. exists (restore (o_view top) (o_view h) wr wm).
  split; [now apply cmd_restore_spec|].
  destruct wr, wm; cbn; repeat split; intros; try discriminate; repeat split.
Qed.

(** `jj undo` of an ordinary operation whose parent is ordinary: the new operation's view
    agrees with the parent's on all five restored portions, and is described as an undo
    pointing at the parent. *)
Theorem C41_undo : forall l0 h p pop,
  let log := (l0 ++ [h])%list in
  strip_prefix UNDO_OP_DESC_PREFIX (o_desc h) = None ->
  o_parents h = [p] -> get log p = Some pop ->
  strip_prefix UNDO_OP_DESC_PREFIX (o_desc pop) = None ->
  exists v, cmd_undo log (N.of_nat (length l0)) h
            = RNew [N.of_nat (length l0)] (UNDO_OP_DESC_PREFIX ++ idstr p) (total v) true
            /\ same5 v (o_view pop).
Proof.
  intros l0 h p pop log H1 H2 H3 H4. exists (restore (o_view pop) (o_view h) true true).
  split; [now apply undo_single|apply restore_full].
Qed.

(** The log invariant: an undo/redo operation carries the five portions of the operation
    it names.  It holds of the empty log and is preserved by every modelled command and by
    every operation that is not described as an undo or redo. *)
Theorem C41_invariant :
  log_inv []
  /\ (forall log hid h ps d v e, log_inv log ->
        cmd_undo log hid h = RNew ps d (total v) e -> log_inv (log ++ [mk_op ps d v]))
  /\ (forall log hid h ps d v e, log_inv log ->
        cmd_redo log hid h = RNew ps d (total v) e -> log_inv (log ++ [mk_op ps d v]))
  /\ (forall log hid h t wr wm ps d v e, log_inv log ->
        cmd_restore log hid h t wr wm = RNew ps d (total v) e -> log_inv (log ++ [mk_op ps d v]))
  /\ (forall log o, log_inv log ->
        strip_prefix UNDO_OP_DESC_PREFIX (o_desc o) = None ->
        strip_prefix REDO_OP_DESC_PREFIX (o_desc o) = None -> log_inv (log ++ [o])).
Proof.
  split; [exact log_inv_nil|]. split; [exact inv_undo|]. split; [exact inv_redo|].
  split; [exact inv_restore|exact inv_normal].
Qed.

(** `jj undo` then `jj redo`: for ANY current operation [h] (ordinary, undo, redo, restore,
    revert, merge result ...) of a log satisfying the invariant, if the undo succeeds then
    the redo succeeds and brings back [h]'s five portions. *)
Theorem C41_redo_inverse : forall l0 h ps d v,
  let log := (l0 ++ [h])%list in
  let hid := N.of_nat (length l0) in
  log_inv log ->
  cmd_undo log hid h = RNew ps d (total v) true ->
  exists d' v', cmd_redo (log ++ [mk_op ps d v]) (hid + 1) (mk_op ps d v)
                = RNew [(hid + 1)%N] d' (total v') true
                /\ same5 v' (o_view h).
Proof. exact redo_after_undo. Qed.

(** A linear history [base] = operations 0..n, none described as undo/redo, operation i+1
    the child of operation i, consecutive views different.  Then k <= n undos succeed, each
    writes one operation, and the view reached agrees with operation n-k on the five
    portions; one more undo at k = n fails with "Cannot undo root operation".  After k undos,
    j <= k redos succeed and reach operation n-k+j; the (k+1)-th redo fails with
    "Nothing to redo". *)
Section Linear.
  Variable base : list op.
  Variable n : nat.
  Hypothesis Hlen : length base = S n.
  Hypothesis Hnormal : forall i o, nth_error base i = Some o ->
    strip_prefix UNDO_OP_DESC_PREFIX (o_desc o) = None
    /\ strip_prefix REDO_OP_DESC_PREFIX (o_desc o) = None.
  Hypothesis Hparents : forall i o, nth_error base i = Some o ->
    o_parents o = match i with O => [] | S j => [N.of_nat j] end.
  Hypothesis Hdistinct : forall i a b, nth_error base i = Some a -> nth_error base (S i) = Some b ->
    ~ same5 (o_view a) (o_view b).

  Theorem C41_undo_n : forall k, (k <= n)%nat ->
    exists log v, iter k CUndo base = Some log /\ length log = (length base + k)%nat
                  /\ head_view log = Some v /\ same5 v (bview base (n - k)).
  Proof.
    intros k Hk.
    assert (Hu : iter k CUndo base = Some (ulog base n k)) by (eapply undo_n; eassumption).
    assert (Hv : exists log v, iter k CUndo base = Some log /\ head_view log = Some v
                               /\ same5 v (bview base (n - k))) by (eapply undo_n_view; eassumption).
    destruct Hv as (log & v & H1 & H2 & H3).
    exists log, v. split; [assumption|]. split; [|auto].
    rewrite Hu in H1. inversion H1; subst log.
    rewrite (ulog_length base n Hlen). lia.
  Qed.

  Theorem C41_undo_root : forall log, iter n CUndo base = Some log ->
    run_cmd log CUndo = Some (RErr 1).
  Proof.
    intros log H.
    assert (Hu : iter n CUndo base = Some (ulog base n n)) by (eapply undo_n; eauto).
    rewrite Hu in H. inversion H; subst log. eapply undo_root; eassumption.
  Qed.

  Theorem C41_redo_n : forall k j, (k <= n)%nat -> (j <= k)%nat ->
    exists log0 log v, iter k CUndo base = Some log0 /\ iter j CRedo log0 = Some log
                       /\ head_view log = Some v /\ same5 v (bview base (n - k + j)).
  Proof.
    intros k j Hk Hj. exists (ulog base n k).
    assert (Hv : exists log v, iter j CRedo (ulog base n k) = Some log /\ head_view log = Some v
                               /\ same5 v (bview base (n - k + j)))
      by (eapply redo_n_view; eassumption).
    destruct Hv as (log & v & H1 & H2 & H3).
    exists log, v. split; [eapply undo_n; eassumption|auto].
  Qed.

  Theorem C41_redo_exhausted : forall k log0 log, (k <= n)%nat ->
    iter k CUndo base = Some log0 -> iter k CRedo log0 = Some log ->
    run_cmd log CRedo = Some (RErr 3).
  Proof.
    intros k log0 log Hk H0 H1.
    assert (Hu : iter k CUndo base = Some (ulog base n k)) by (eapply undo_n; eassumption).
    rewrite Hu in H0. inversion H0; subst log0.
    assert (Hr : iter k CRedo (ulog base n k) = Some (rlog base n k k))
      by (eapply redo_n; eauto).
    rewrite Hr in H1. inversion H1; subst log. eapply redo_exhausted; eassumption.
  Qed.
End Linear.

(** `jj op revert` of the current operation (the default `@`) is an undo: every portion the
    model determines equals the parent operation's (bookmark, tag and workspace maps compared
    by lookup), the Git fields stay the current ones. *)
Theorem C41_revert_current : forall l0 h p pop,
  let log := (l0 ++ [h])%list in
  let hid := N.of_nat (length l0) in
  o_parents h = [p] -> get log p = Some pop ->
  exists bm tg w,
    cmd_revert log hid h hid true true
    = RNew [hid] (REVERT_OP_DESC_PREFIX ++ idstr hid)
           (mk_pview (Some (v_heads (o_view pop))) (Some bm) (Some tg) (Some w)
                     (Some (v_remotes (o_view pop)))
                     (Some (v_git_refs (o_view h))) (Some (v_git_heads (o_view h)))) false
    /\ (forall name, target_of (lookup_ref bm name) = target_of (lookup_ref (v_bookmarks (o_view pop)) name))
    /\ (forall name, target_of (lookup_ref tg name) = target_of (lookup_ref (v_tags (o_view pop)) name))
    /\ (forall name, lookup_ref w name = lookup_ref (v_wc (o_view pop)) name).
Proof. exact revert_current. Qed.

(** The permitted difference: when the restored working-copy commit is immutable and a new
    commit is put on top, bookmarks, tags, remote-tracking state and the Git fields are
    still exactly as the model says. *)
Theorem C41_immutable_exception : forall v0 v,
  pview_match (relax_immutable (total v0)) v = true ->
  v_bookmarks v = v_bookmarks v0 /\ v_tags v = v_tags v0 /\ v_remotes v = v_remotes v0
  /\ v_git_refs v = v_git_refs v0 /\ v_git_heads v = v_git_heads v0.
Proof. exact relax_immutable_keeps. Qed.

(** Meaning of the tests the property checker applies to the IMPLEMENTATION's operations. *)
Theorem C41_checker_restore : forall log t x,
  prop_event log (CRestore t true true) (ONew x false) = true ->
  exists top, get log t = Some top /\ same5 (o_view x) (o_view top).
Proof. exact prop_event_restore. Qed.

Theorem C41_checker_undo : forall l0 h x,
  prop_event (l0 ++ [h]) CUndo (ONew x false) = true ->
  is_undo_desc (o_desc h) = false ->
  exists p pop, o_parents h = [p] /\ get (l0 ++ [h]) p = Some pop
                /\ (is_undo_desc (o_desc pop) = false -> same5 (o_view x) (o_view pop)).
Proof. exact prop_event_undo. Qed.

(** The description prefixes scraped from the sources keep the two stacks apart. *)
Theorem C41_prefixes_disjoint : forall s,
  strip_prefix REDO_OP_DESC_PREFIX (UNDO_OP_DESC_PREFIX ++ s) = None
  /\ strip_prefix UNDO_OP_DESC_PREFIX (REDO_OP_DESC_PREFIX ++ s) = None
  /\ strip_prefix UNDO_OP_DESC_PREFIX (RESTORE_OP_DESC_PREFIX ++ s) = None
  /\ strip_prefix REDO_OP_DESC_PREFIX (RESTORE_OP_DESC_PREFIX ++ s) = None
  /\ strip_prefix UNDO_OP_DESC_PREFIX (REVERT_OP_DESC_PREFIX ++ s) = None
  /\ strip_prefix REDO_OP_DESC_PREFIX (REVERT_OP_DESC_PREFIX ++ s) = None
  /\ (forall n, parse_id (idstr n) = Some n).
Proof. intros s. repeat split. exact parse_idstr. Qed.

Check C41_undo_n.
Check C41_redo_n.

(** Non-vacuity: three ordinary operations; two undos reach operation 0's view, two redos
    come back to operation 2's. *)
Example C41_nonvacuous :
  let v i := mk_view [i] [] [] [(0, i)]%N [] [] [] in
  let base := [mk_op [] "" (v 1%N); mk_op [0%N] "new" (v 2%N); mk_op [1%N] "describe" (v 3%N)] in
  (exists l, iter 2 CUndo base = Some l /\ length l = 5%nat /\ head_view l = Some (v 1%N))
  /\ (exists l0 l, iter 2 CUndo base = Some l0 /\ iter 2 CRedo l0 = Some l
                   /\ head_view l = Some (v 3%N) /\ run_cmd l CRedo = Some (RErr 3))
  /\ (exists l, iter 2 CUndo base = Some l /\ run_cmd l CUndo = Some (RErr 1)).
Proof.
  split; [|split].
  - eexists. vm_compute. repeat split.
  - eexists. eexists. vm_compute. repeat split.
  - eexists. vm_compute. repeat split.
Qed.

Print Assumptions C41_restore.
Print Assumptions C41_redo_inverse.
Print Assumptions C41_undo_n.
Print Assumptions C41_redo_n.
Print Assumptions C41_redo_exhausted.
Print Assumptions C41_revert_current.
