(** C27 — Sparse patterns change the disk, never the commit.

    [set_sparse] (Base/WcC.v) transcribes TreeState::set_sparse_patterns of
    lib/src/local_working_copy.rs: an update from the empty tree to the current tree under
    the matcher new \ old, then an update from the current tree to the empty tree under
    old \ new, with the assert_eq!s on the two statistics. Sparse patterns are lists of
    path prefixes (PrefixMatcher). The snapshot is the declarative one (tracked paths
    inside the patterns are read from the disk, tracked paths outside keep their value);
    the real snapshot is tied by the correspondence check, which compares the tree it
    returns after every real set_sparse_patterns call. *)
From Verif Require Import Base.Prelude Base.FsC Base.WcC Base.C24Chk Base.C25Chk Base.C27Chk Base.WcNames Model.C27.
From Verif Require Import Proofs.FsC Proofs.WcCore Proofs.C24Step Proofs.C24Diff Proofs.C24Main Proofs.C25Main Proofs.C27Main Proofs.C27Refuted Proofs.C27Seq.
Local Open Scope string_scope.
Local Open Scope list_scope.

Section Statements.
  Variable rn : list name.

  (** From a disk that holds the tree inside the old patterns (plus untracked entries not
      in the way), set_sparse_patterns succeeds; it reports as added exactly the number of
      tree files matching new \ old, as removed exactly the number matching old \ new,
      nothing updated, nothing skipped; the disk then holds exactly the tree inside the new
      patterns plus the same untracked entries; the tree is unchanged and the new patterns
      are recorded. *)
  Theorem C27_exact_delta : forall w new u f,
    tok rn (wc_tree w) -> nodup_paths (keys (wc_tree w)) = true -> flat_ok (wc_tree w) ->
    uokp rn u (keys (wc_tree w)) ->
    models (restrict (matches (wc_sparse w)) (wc_tree w)) u f ->
    let '(o, w') := set_sparse rn f w new in
    o_res o = ROk (mkStats (count_in (matches_diff new (wc_sparse w)) (wc_tree w)) 0
                           (count_in (matches_diff (wc_sparse w) new) (wc_tree w)) 0)
    /\ models (restrict (matches new) (wc_tree w)) u (o_fs o)
    /\ wc_tree w' = wc_tree w /\ wc_sparse w' = new.
  Proof. exact (set_sparse_clean rn). Qed.

  (** Whatever the disk looks like (untracked files in the way, edits), the two updates
      leave alone every file they do not own and write only at the paths of the tree
      files entering or leaving the patterns: C25's theorems apply to each of the two
      updates, because they hold for every diff list. The tree recorded in the working
      copy is never changed by [set_sparse]. *)
  Theorem C27_tree_unchanged : forall f w new, wc_tree (snd (set_sparse rn f w new)) = wc_tree w.
  Proof. exact (set_sparse_tree_unchanged rn). Qed.

  (** A snapshot under sparse patterns keeps every tracked path outside the patterns, and
      on a disk that holds the tree inside the patterns it returns the identical tree: no
      path outside the patterns is ever reported deleted. *)
  Theorem C27_snapshot_respects : forall m t u f,
    tok rn t -> nodup_paths (keys t) = true -> models (restrict m t) u f -> snap_sparse f m t = t.
  Proof. exact (snap_sparse_fixpoint rn). Qed.

  Theorem C27_snapshot_keeps_outside : forall m t f p v,
    nodup_paths (keys t) = true -> leaf t p = Some v -> m p = false -> In (p, v) (snap_sparse f m t).
  Proof. exact snap_sparse_outside. Qed.

  (** Sequences (the property quantifies over sequences of pattern sets): from a clean disk every
      call of ANY sequence of set_sparse_patterns calls succeeds, and afterwards the disk holds
      exactly the tree inside the LAST patterns plus the same untracked entries, the tree is
      still the same and the last patterns are recorded. *)
  Theorem C27_sequence : forall ps w u f,
    tok rn (wc_tree w) -> nodup_paths (keys (wc_tree w)) = true -> flat_ok (wc_tree w) ->
    uokp rn u (keys (wc_tree w)) ->
    models (restrict (matches (wc_sparse w)) (wc_tree w)) u f ->
    let '(rs, f', w') := set_sparse_seq rn f w ps in
    Forall (fun r => exists st, r = ROk st) rs /\ length rs = length ps
    /\ models (restrict (matches (last ps (wc_sparse w))) (wc_tree w)) u f'
    /\ wc_tree w' = wc_tree w /\ wc_sparse w' = last ps (wc_sparse w).
  Proof. exact (set_sparse_seq_clean rn). Qed.

  (** Path independence: two sequences ending with the same patterns leave the same disk at
      every path, the same tree and the same recorded patterns (so a detour through other
      pattern sets is the same as setting the final patterns directly). *)
  Theorem C27_path_independent : forall ps1 ps2 w u f,
    tok rn (wc_tree w) -> nodup_paths (keys (wc_tree w)) = true -> flat_ok (wc_tree w) ->
    uokp rn u (keys (wc_tree w)) ->
    models (restrict (matches (wc_sparse w)) (wc_tree w)) u f ->
    last ps1 (wc_sparse w) = last ps2 (wc_sparse w) ->
    let r1 := set_sparse_seq rn f w ps1 in
    let r2 := set_sparse_seq rn f w ps2 in
    (forall q, lookup (snd (fst r1)) q = lookup (snd (fst r2)) q)
    /\ wc_tree (snd r1) = wc_tree (snd r2) /\ wc_sparse (snd r1) = wc_sparse (snd r2).
  Proof. exact (set_sparse_path_independent rn). Qed.

  (** Pattern changes interleaved with checkouts in one working copy, ANY sequence (well-formed
      conflict-free trees, untracked entries off all their paths): every call succeeds without
      skipping, the recorded tree is the one checked out last - set_sparse_patterns never changes
      it -, the recorded patterns are the ones set last - check_out never changes them -, and the
      disk is exactly that tree inside those patterns plus the untracked entries. *)
  Theorem C27_interleaved : forall ops w u f,
    (forall t, In t (wc_tree w :: trees_of ops) -> good_tree rn t) ->
    uokp rn u (flat_map keys (wc_tree w :: trees_of ops)) ->
    models (restrict (matches (wc_sparse w)) (wc_tree w)) u f ->
    let '(rs, f', w') := run_ops rn f w ops in
    Forall (fun r => exists st, r = ROk st /\ n_skipped st = 0%N) rs /\ length rs = length ops
    /\ wc_tree w' = final_tree ops (wc_tree w) /\ wc_sparse w' = final_sparse ops (wc_sparse w)
    /\ models (restrict (matches (wc_sparse w')) (wc_tree w')) u f'.
  Proof. exact (run_ops_clean rn). Qed.

  (** The hypotheses are decided on every clean recorded step. *)
  Theorem C27_hypotheses_decided : forall c, C27Chk.pre_ok rn c = true ->
    forall s, In s (c_steps c) -> ss_clean s = true ->
      tok rn (ss_tree s) /\ nodup_paths (keys (ss_tree s)) = true /\ flat_ok (ss_tree s)
      /\ uokp rn (c_untracked c) (keys (ss_tree s))
      /\ models (restrict (matches (ss_old s)) (ss_tree s)) (c_untracked c) (ss_disk0 s).
  Proof. exact (pre_ok_sound rn). Qed.
End Statements.

(** The boolean checker run on the real results means exactly [sstep_okp] for every step:
    tree id unchanged, the real snapshot keeps every tracked path outside the new patterns
    (and returns the identical tree on clean steps), untouched / confined for the two
    diffs, no file counted as updated, and on clean steps the disk is exactly the tree
    inside the new patterns with the exact statistics. The steps of a session run inside one
    locked working copy ([sess_okp]) are judged against the patterns that are CURRENT at
    that moment: set_sparse_patterns as above and the recorded patterns are the new ones;
    a snapshot keeps every tracked path outside the current patterns; a checkout changes
    files and links only inside the current patterns and only what its diff owns. *)
Theorem C27_checker_spec : forall c,
  C27Chk.okb c = true <->
  (forall s, In s (c_steps c) -> sstep_okp (c_untracked c) s)
  /\ (forall st, In st (c_session c) -> sess_okp (c_untracked c) st).
Proof. exact okb_spec. Qed.

Check C27_exact_delta.
Check C27_snapshot_respects.

(** Non-vacuity: patterns moving in and out. *)
Definition ex_u : fs := [(pth ".jj", EDir); (pth ".jj/repo", EDir); (pth "d/u", EFile "mine" false)].
Definition ex_t : tree :=
  [(pth "a/x", TFile "1" false); (pth "a/y", TSym "x"); (pth "b", TFile "2" true); (pth "d/z", TFile "3" false)].

Example C27_nonvacuous :
  let w0 := mkWc [] [] [[]] in
  let '(o0, w1) := check_out reserved_names ex_u w0 ex_t in
  let '(o1, w2) := set_sparse reserved_names (o_fs o0) w1 [pth "a"; pth "d"] in
  let '(o2, w3) := set_sparse reserved_names (o_fs o1) w2 [pth "b"; pth "a/y"] in
  tree_ok_b reserved_names ex_t = true /\ compat_b ex_u (keys ex_t) = true
  /\ o_res o1 = ROk (mkStats 0 0 1 0) /\ o_res o2 = ROk (mkStats 1 0 2 0)
  /\ models_b (restrict (matches [pth "a"; pth "d"]) ex_t) ex_u (o_fs o1) = true
  /\ models_b (restrict (matches [pth "b"; pth "a/y"]) ex_t) ex_u (o_fs o2) = true
  /\ wc_tree w3 = ex_t /\ wc_sparse w3 = [pth "b"; pth "a/y"]
  /\ lookup (o_fs o2) (pth "d/u") = Some (EFile "mine" false)
  /\ lookup (o_fs o2) (pth "a/x") = None
  /\ snap_sparse (o_fs o2) (matches [pth "b"; pth "a/y"]) ex_t = ex_t.
Proof. vm_compute. repeat split. Qed.

Example C27_sequence_nonvacuous :
  let w0 := mkWc [] [] [[]] in
  let '(o0, w1) := check_out reserved_names ex_u w0 ex_t in
  let '(rs, f', w') := set_sparse_seq reserved_names (o_fs o0) w1
                         [[pth "a"; pth "d"]; [pth "b"; pth "a/y"]; []; [pth "d"; pth "b"]] in
  let '(rs2, f2, w2) := set_sparse_seq reserved_names (o_fs o0) w1 [[pth "d"; pth "b"]] in
  rs = [ROk (mkStats 0 0 1 0); ROk (mkStats 1 0 2 0); ROk (mkStats 0 0 2 0); ROk (mkStats 2 0 0 0)]
  /\ models_b (restrict (matches [pth "d"; pth "b"]) ex_t) ex_u f' = true
  /\ models_b (restrict (matches [pth "d"; pth "b"]) ex_t) ex_u f2 = true
  /\ wc_tree w' = ex_t /\ wc_sparse w' = [pth "d"; pth "b"]
  /\ lookup f' (pth "d/u") = Some (EFile "mine" false) /\ lookup f' (pth "a/x") = None
  /\ lookup f' (pth "d/z") = lookup f2 (pth "d/z").
Proof. vm_compute. repeat split. Qed.
Definition ex_t2 : tree := [(pth "a/x", TFile "9" true); (pth "c", TSym "b"); (pth "d/z/k", TFile "4" false)].
Example C27_interleaved_nonvacuous :
  let w0 := mkWc [] [] [[]] in
  let '(rs, f', w') := run_ops reserved_names ex_u w0
        [OpCheckout ex_t; OpSparse [pth "a"; pth "d"]; OpCheckout ex_t2; OpSparse [pth "c"; pth "d"];
         OpCheckout ex_t] in
  tree_ok_b reserved_names ex_t2 = true /\ compat_b ex_u (keys ex_t ++ keys ex_t2) = true
  /\ length rs = 5%nat /\ forallb (fun r => match r with ROk st => N.eqb (n_skipped st) 0 | _ => false end) rs = true
  /\ wc_tree w' = ex_t /\ wc_sparse w' = [pth "c"; pth "d"]
  /\ models_b (restrict (matches [pth "c"; pth "d"]) ex_t) ex_u f' = true
  /\ lookup f' (pth "d/z") = Some (EFile "3" false) /\ lookup f' (pth "a/x") = None
  /\ lookup f' (pth "d/u") = Some (EFile "mine" false).
Proof. vm_compute. repeat split. Qed.
(** Without the cleanliness hypothesis the statement is false of the faithful model (and
    of the code, see the known-finding class [C27Chk.known_class]): the removal pass can
    skip a path, and then assert_eq!(removed_stats.skipped_files, 0) fails after the disk
    has been partly updated. Witness: tree {x/f, y}, patterns [x], the directory [x]
    replaced by a file behind jj's back, new patterns [y]. *)
Definition C27_asserts_full : Prop := asserts_full.

Theorem C27_asserts_refuted : ~ C27_asserts_full.
Proof. exact asserts_refuted. Qed.

Print Assumptions C27_exact_delta.
Print Assumptions C27_tree_unchanged.
Print Assumptions C27_snapshot_respects.
Print Assumptions C27_checker_spec.
Print Assumptions C27_sequence.
Print Assumptions C27_path_independent.
Print Assumptions C27_interleaved.
