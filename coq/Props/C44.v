(** C44 - Text truncation and wrapping respect the width (P-part).
    Model/C44.v transcribes elide_start / elide_end, truncate_*_pos, skip_*_pos,
    trim_start_zero_width_chars, write_truncated_*, write_padded_* of cli/src/text_util.rs.
    Strings are lists over an arbitrary character type [A]; the per-character width [cw] and the
    whole-string width [sw] (both from the unicode-width crate) are Section variables with NO
    assumption on their values (in particular characters wider than 2 columns are covered).
    The measure of the theorems is jj's own: the sum of the per-character widths ([swidth]).
    Character integrity holds by construction (the model cuts lists of characters; the harness
    observes that the real functions return valid UTF-8 and do not panic).
    wrap_bytes / write_wrapped delegate line breaking to the textwrap crate: not modelled; the
    checker [lines_ok] (meaning: C44_wrap_checker_spec) judges their real outputs. *)
From Verif Require Import Base.Prelude Model.C44 Proofs.C44 Proofs.C44Checker.

Section Statements.
  Context {A : Type} (cw : A -> nat).

  (** elide_start: never panics (the assert! on text_util.rs:68 cannot fire); the returned width
      is the width of the returned string; the string is never wider than [max]; text that fits
      is returned unchanged; otherwise the whole ellipsis followed by a suffix of the text, or,
      when the ellipsis itself is too wide, a suffix of the ellipsis alone. *)
  Theorem C44_elide_start : forall (text ell : list A) (max : nat),
    exists out w,
      elide_start cw text ell max = EOut out w
      /\ w = swidth cw out /\ (swidth cw out <= max)%nat
      /\ ((swidth cw text <= max)%nat -> out = text)
      /\ ((max < swidth cw text)%nat -> (swidth cw ell <= max)%nat ->
          exists t p, out = ell ++ t /\ text = p ++ t)
      /\ ((max < swidth cw text)%nat -> (max < swidth cw ell)%nat ->
          exists p, ell = p ++ out).
  Proof. exact (elide_start_spec cw). Qed.

  (** elide_end: the mirror image (assert! on text_util.rs:97). *)
  Theorem C44_elide_end : forall (text ell : list A) (max : nat),
    exists out w,
      elide_end cw text ell max = EOut out w
      /\ w = swidth cw out /\ (swidth cw out <= max)%nat
      /\ ((swidth cw text <= max)%nat -> out = text)
      /\ ((max < swidth cw text)%nat -> (swidth cw ell <= max)%nat ->
          exists t p, out = t ++ ell /\ text = t ++ p)
      /\ ((max < swidth cw text)%nat -> (max < swidth cw ell)%nat ->
          exists p, ell = out ++ p).
  Proof. exact (elide_end_spec cw). Qed.

  (** The four headline properties, for both functions at once. *)
  Corollary C44_width_bound : forall text ell max out w,
    elide_start cw text ell max = EOut out w \/ elide_end cw text ell max = EOut out w ->
    (swidth cw out <= max)%nat.
  Proof. exact (elide_width_bound cw). Qed.

  Corollary C44_reported_width : forall text ell max out w,
    elide_start cw text ell max = EOut out w \/ elide_end cw text ell max = EOut out w ->
    w = swidth cw out.
  Proof. exact (elide_reported_width cw). Qed.

  Corollary C44_fits_unchanged : forall text ell max,
    (swidth cw text <= max)%nat ->
    elide_start cw text ell max = EOut text (swidth cw text)
    /\ elide_end cw text ell max = EOut text (swidth cw text).
  Proof. exact (elide_fits_unchanged cw). Qed.

  (** Idempotence: the output of elide_* is a fixed point of elide_* for the same ellipsis and
      limit (a template that truncates an already truncated string changes nothing). *)
  Corollary C44_elide_idempotent : forall text ell max out w,
    (elide_start cw text ell max = EOut out w -> elide_start cw out ell max = EOut out w)
    /\ (elide_end cw text ell max = EOut out w -> elide_end cw out ell max = EOut out w).
  Proof. exact (elide_idempotent cw). Qed.

  (** Nothing is dropped that would still have fitted: the first character elide_end leaves out
      does not fit in front of the ellipsis ... *)
  Theorem C44_elide_end_maximal : forall (text ell : list A) max out w,
    elide_end cw text ell max = EOut out w ->
    (max < swidth cw text)%nat -> (swidth cw ell <= max)%nat ->
    exists t c p, out = t ++ ell /\ text = t ++ c :: p
                  /\ (max < swidth cw t + cw c + swidth cw ell)%nat.
  Proof. exact (elide_end_maximal cw). Qed.

  (** ... and the character before what elide_start keeps (skipping the zero-width characters
      [z] it trims) does not fit after the ellipsis. *)
  Theorem C44_elide_start_maximal : forall (text ell : list A) max out w,
    elide_start cw text ell max = EOut out w ->
    (max < swidth cw text)%nat -> (swidth cw ell <= max)%nat ->
    exists t c p, out = ell ++ t /\ (exists z, text = p ++ c :: z ++ t /\ swidth cw z = 0%nat)
                  /\ (max < swidth cw ell + cw c + swidth cw t)%nat.
  Proof. exact (elide_start_maximal cw). Qed.

  (** write_truncated_* on strings where the two measures agree (PARTIAL: see C44_full below). *)
  Theorem C44_truncated_end_partial : forall (sw : list A -> nat) data ell max out w,
    write_truncated_end cw sw data ell max = (out, w) ->
    sw data = swidth cw data -> sw ell = swidth cw ell ->
    w = swidth cw out /\ (swidth cw out <= max)%nat
    /\ ((swidth cw data <= max)%nat -> out = data)
    /\ ((max < swidth cw data)%nat ->
        exists t e p q, out = t ++ e /\ data = t ++ p /\ ell = e ++ q
                        /\ ((swidth cw ell <= max)%nat -> e = ell)).
  Proof. exact (write_truncated_end_spec cw). Qed.

  Theorem C44_truncated_start_partial : forall (sw : list A -> nat) data ell max out w,
    write_truncated_start cw sw data ell max = (out, w) ->
    sw data = swidth cw data -> sw ell = swidth cw ell ->
    w = swidth cw out /\ (swidth cw out <= max)%nat
    /\ ((swidth cw data <= max)%nat -> out = data)
    /\ ((max < swidth cw data)%nat ->
        exists t e p q, out = e ++ t /\ data = p ++ t /\ ell = q ++ e).
  Proof. exact (write_truncated_start_spec cw). Qed.

  (** write_padded_*: with a fill character of width 1 the result is exactly max(min, width)
      columns wide, content that already reaches [min] is unchanged, and the content appears
      once, with the fill only at the stated side(s). *)
  Theorem C44_padded : forall (sw : list A -> nat) data fill min,
    sw data = swidth cw data -> swidth cw fill = 1%nat ->
    let outs := [write_padded_start sw data fill min; write_padded_end sw data fill min;
                 write_padded_centered sw data fill min] in
    Forall (fun out => swidth cw out = Nat.max min (swidth cw data)
                       /\ ((min <= swidth cw data)%nat -> out = data)) outs
    /\ (exists k, write_padded_start sw data fill min = repeat_fill fill k ++ data)
    /\ (exists k, write_padded_end sw data fill min = data ++ repeat_fill fill k)
    /\ (exists k1 k2, write_padded_centered sw data fill min
                      = repeat_fill fill k1 ++ data ++ repeat_fill fill k2
                      /\ (k1 <= k2 <= k1 + 1)%nat).
  Proof. exact (padded_spec cw). Qed.
End Statements.

(** The full statement one would like for write_truncated_* (no assumption relating the two
    measures; text that fits is returned unchanged).  It is FALSE of the faithful model, and of
    the implementation (the two refutations below; their real-code witnesses are produced by the
    harness on every run and reported as known-finding classes 1 and 2). *)
Definition C44_full : Prop :=
  forall (A : Type) (cw : A -> nat) (sw : list A -> nat) (start : bool) data ell max,
    let (out, w) := (if start then write_truncated_start else write_truncated_end) cw sw data ell max in
    (swidth cw out <= max)%nat /\ w = swidth cw out
    /\ (sw data = swidth cw data -> (swidth cw data <= max)%nat -> out = data).

Theorem C44_truncated_bound_refuted :
  exists (cw : bool -> nat) (sw : list bool -> nat) data ell max,
    sw data = swidth cw data /\
    let (out, w) := write_truncated_end cw sw data ell max in
    (max < swidth cw out)%nat /\ (max < w)%nat.
Proof. exact truncated_end_bound_refuted. Qed.

Theorem C44_truncated_start_old_fits_refuted :
  exists (cw : bool -> nat) data max,
    (swidth cw data <= max)%nat /\
    fst (write_truncated_start_old cw (swidth cw) data [] max) <> data
    /\ fst (write_truncated_start cw (swidth cw) data [] max) = data.
Proof. exact truncated_start_old_fits_refuted. Qed.

(** Meaning of the checkers run on the implementation's outputs. *)
Theorem C44_elide_checker_spec : forall start text ell max out w,
  elide_okb start text ell max out w = true <-> elide_prop start text ell max out w.
Proof. exact elide_okb_spec. Qed.

Theorem C44_truncated_checker_spec : forall start data ell max swd out w,
  trunc_okb start data ell max swd out w = true <->
  (out_width (data ++ ell) out <= max)%N /\ w = out_width (data ++ ell) out
  /\ ((swd <= max)%N -> out = out_cps data).
Proof. exact trunc_okb_spec. Qed.

Theorem C44_padded_checker_spec : forall kind data fill min swd out,
  pad_okb kind data fill min swd out = true <->
  (N.of_nat (length out) = N.of_nat (length (out_cps data)) + (min - swd) * N.of_nat (length fill))%N
  /\ ((min <= swd)%N -> out = out_cps data)
  /\ (kind = 0%N -> exists p, out = p ++ out_cps data)
  /\ (kind = 1%N -> exists q, out = out_cps data ++ q).
Proof. exact pad_okb_spec. Qed.

(** wrap_bytes outputs accepted by the checker tile the text: lines at their reported offsets,
    separated by spaces (forced soft break: the next word did not fit) or spaces and exactly one
    newline, only spaces after the last line, every line within the width unless it contains no
    space, no line containing a newline. *)
Theorem C44_wrap_checker_spec : forall text width ls,
  lines_ok text width ls = true -> wrap_prop text width ls.
Proof. exact lines_ok_spec. Qed.

(** write_wrapped on a plain formatter writes exactly wrap_bytes' lines joined by newlines. *)
Theorem C44_wrapped_checker_spec : forall ls wrapped,
  wrapped_okb ls wrapped = true <-> wrapped = join_lines ls.
Proof. exact wrapped_okb_spec. Qed.

Check @C44_width_bound : forall (A : Type) (cw : A -> nat) text ell max out w,
  elide_start cw text ell max = EOut out w \/ elide_end cw text ell max = EOut out w ->
  (swidth cw out <= max)%nat.
Check @C44_fits_unchanged : forall (A : Type) (cw : A -> nat) text ell max,
  (swidth cw text <= max)%nat ->
  elide_start cw text ell max = EOut text (swidth cw text)
  /\ elide_end cw text ell max = EOut text (swidth cw text).

(** Non-vacuity: wide (2), zero-width (0) and narrow characters; an ellipsis wider than the limit;
    a cut through the middle of a wide character's columns. *)
Example C44_nonvacuous :
  let cw := fun c : nat => c in
  elide_end cw [1; 2; 0; 2; 1]%nat [1]%nat 4 = EOut [1; 2; 0; 1]%nat 4
  /\ elide_start cw [1; 2; 0; 2; 1]%nat [1]%nat 3 = EOut [1; 1]%nat 2
  /\ elide_start cw [2; 2; 2]%nat [0; 2; 2]%nat 3 = EOut [2]%nat 2
  /\ elide_end cw [2; 2]%nat [1]%nat 4 = EOut [2; 2]%nat 4
  /\ elide_end cw [3]%nat []%nat 2 = EOut []%nat 0.
Proof. cbv zeta. repeat split; vm_compute; reflexivity. Qed.

Print Assumptions C44_elide_start.
Print Assumptions C44_elide_end.
Print Assumptions C44_truncated_end_partial.
Print Assumptions C44_wrap_checker_spec.
