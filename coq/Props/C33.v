(** C33 — Git ref names and jj bookmark/tag symbols map one-to-one.
    Model/C33.v transcribes [parse_git_ref], [to_git_ref_name], [validate_remote_name],
    [parse_remote_tag_ref], [to_git_or_remote_tag_ref_name] (lib/src/git.rs) over byte
    strings of any length and content; every literal is scraped from the source
    (Gen/Tables.v). [no_slash rm] is what [validate_remote_name] enforces on remote names;
    [no_empty_component r] holds of every ref name Git accepts. *)
From Verif Require Import Base.Prelude Gen.Tables Model.C33 Proofs.C33.
Local Open Scope N_scope.

(** Export then import: for EVERY kind, name and remote, if the symbol is exportable then
    parsing the exported ref gives back the same kind and symbol exactly when the remote
    name contains no '/'. *)
Theorem C33_export_import : forall (k : kind) (n rm r : bytes),
  to_git_ref_name k (n, rm) = Some r ->
  (parse_git_ref r = Some (k, (n, rm)) <-> no_slash rm = true).
Proof. exact export_import. Qed.

(** ... in particular for every remote name [validate_remote_name] accepts. *)
Theorem C33_valid_remote_roundtrip : forall (gix_ok : bool) (rm : bytes) (k : kind) (n r : bytes),
  validate_remote_name gix_ok rm = RvOk -> to_git_ref_name k (n, rm) = Some r ->
  parse_git_ref r = Some (k, (n, rm)).
Proof. exact valid_remote_roundtrip. Qed.

Theorem C33_validate_ok_iff : forall (gix_ok : bool) (rm : bytes),
  validate_remote_name gix_ok rm = RvOk <-> gix_ok = true /\ rm <> LOCAL /\ no_slash rm = true.
Proof. exact validate_ok_iff. Qed.

(** Why the '/' rule is needed: with a '/' in the remote name, the exported ref is imported
    as a different symbol (the remote is cut at its first '/'). *)
Theorem C33_slash_remote_collides : forall (n a b r : bytes),
  to_git_ref_name Bookmark (n, a ++ SLASH :: b) = Some r -> no_slash a = true -> a <> LOCAL ->
  parse_git_ref r = Some (Bookmark, (b ++ SLASH :: n, a)).
Proof. exact export_import_slash_remote. Qed.

(** Import then export: for EVERY ref name, if it is importable then exporting the parsed
    symbol gives back the same ref exactly when neither part is empty; this is the case for
    every ref without empty path components (every ref name Git accepts). *)
Theorem C33_import_export : forall (r : bytes) (k : kind) (n rm : bytes),
  parse_git_ref r = Some (k, (n, rm)) ->
  (to_git_ref_name k (n, rm) = Some r <-> n <> [] /\ rm <> []).
Proof. exact import_export. Qed.

Theorem C33_import_export_valid : forall (r : bytes) (k : kind) (n rm : bytes),
  no_empty_component r = true -> parse_git_ref r = Some (k, (n, rm)) ->
  to_git_ref_name k (n, rm) = Some r.
Proof. exact import_export_valid. Qed.

(** The imported remote name never contains '/', so import∘export∘import is stable. *)
Theorem C33_parsed_remote_no_slash : forall (r : bytes) (k : kind) (n rm : bytes),
  parse_git_ref r = Some (k, (n, rm)) -> no_slash rm = true.
Proof. exact parse_remote_no_slash. Qed.

(** One-to-one, both ways. *)
Theorem C33_export_injective : forall k n rm k' n' rm' r,
  to_git_ref_name k (n, rm) = Some r -> to_git_ref_name k' (n', rm') = Some r ->
  no_slash rm = true -> no_slash rm' = true ->
  (k, (n, rm)) = (k', (n', rm')).
Proof. exact export_injective. Qed.

Theorem C33_parse_injective : forall r r' x,
  parse_git_ref r = Some x -> parse_git_ref r' = Some x -> r = r'.
Proof. exact parse_injective. Qed.

(** Bookmarks and tags never share a ref, whatever the remote names are. *)
Theorem C33_kind_determined : forall k n rm k' n' rm' r,
  to_git_ref_name k (n, rm) = Some r -> to_git_ref_name k' (n', rm') = Some r -> k = k'.
Proof. exact export_kind_determined. Qed.

(** The graphs of both functions, exactly (this is where the [HEAD] and reserved-remote
    exclusions are characterised). *)
Theorem C33_parse_graph : forall (r : bytes) (k : kind) (n rm : bytes),
  parse_git_ref r = Some (k, (n, rm)) <->
  (k = Bookmark /\ rm = LOCAL /\ r = C33_PARSE_HEADS_NS ++ n /\ n <> C33_PARSE_LOCAL_HEAD)
  \/ (k = Bookmark /\ rm <> LOCAL /\ no_slash rm = true /\ n <> C33_PARSE_LOCAL_HEAD
      /\ r = REMOTES ++ rm ++ [SLASH] ++ n)
  \/ (k = Tag /\ rm = LOCAL /\ r = C33_PARSE_TAGS_NS ++ n).
Proof. exact parse_git_ref_graph. Qed.

Theorem C33_export_graph : forall (k : kind) (n rm r : bytes),
  to_git_ref_name k (n, rm) = Some r <->
  n <> [] /\ rm <> [] /\
  ((k = Bookmark /\ n <> C33_PARSE_LOCAL_HEAD /\ rm = LOCAL /\ r = C33_PARSE_HEADS_NS ++ n)
   \/ (k = Bookmark /\ n <> C33_PARSE_LOCAL_HEAD /\ rm <> LOCAL
       /\ r = REMOTES ++ rm ++ [SLASH] ++ n)
   \/ (k = Tag /\ rm = LOCAL /\ r = C33_PARSE_TAGS_NS ++ n)).
Proof. exact to_git_ref_name_graph. Qed.

Theorem C33_parse_none_iff : forall r : bytes,
  parse_git_ref r = None <->
  (forall n, r = C33_PARSE_HEADS_NS ++ n -> n = C33_PARSE_LOCAL_HEAD) /\
  (forall rm n, r = REMOTES ++ rm ++ [SLASH] ++ n -> no_slash rm = true ->
                rm = LOCAL \/ n = C33_PARSE_LOCAL_HEAD) /\
  (forall n, r <> C33_PARSE_TAGS_NS ++ n).
Proof. exact parse_none_iff. Qed.

Theorem C33_export_none_iff : forall (k : kind) (n rm : bytes),
  to_git_ref_name k (n, rm) = None <->
  n = [] \/ rm = [] \/ (k = Bookmark /\ n = C33_PARSE_LOCAL_HEAD) \/ (k = Tag /\ rm <> LOCAL).
Proof. exact export_none_iff. Qed.

(** The reserved namespace [RESERVED_REMOTE_REF_NAMESPACE] is exactly the remote-bookmark
    namespace of the reserved remote, and nothing below it is ever imported. *)
Theorem C33_reserved_namespace : forall x : bytes,
  C33_RESERVED_NS = REMOTES ++ LOCAL ++ [SLASH] /\ parse_git_ref (C33_RESERVED_NS ++ x) = None.
Proof. intros x. split; [apply lit_reserved_ns | apply reserved_ns_not_imported]. Qed.

(** Remote-tag refs: round trip, and they are never imported as bookmarks or tags. *)
Theorem C33_remote_tag_roundtrip : forall n rm : bytes,
  no_slash rm = true -> rm <> LOCAL ->
  parse_remote_tag_ref (to_git_or_remote_tag_ref_name (n, rm)) = Some (Tag, (n, rm))
  /\ parse_git_ref (to_git_or_remote_tag_ref_name (n, rm)) = None.
Proof.
  intros n rm Hs Hl. split; [apply rtag_export_parse | apply rtag_not_imported_as_git_ref]; auto.
Qed.

Theorem C33_remote_tag_parse_export : forall r n rm : bytes,
  parse_remote_tag_ref r = Some (Tag, (n, rm)) ->
  to_git_or_remote_tag_ref_name (n, rm) = r /\ no_slash rm = true /\ rm <> LOCAL.
Proof. exact rtag_parse_export. Qed.

(** Meaning of the checker that is run on the implementation's recorded answers. *)
Theorem C33_okb_spec : forall c : case,
  okb c = true <->
  c_panicked c = false /\
  forall o, In o (c_obs c) ->
    match o with
    | OExport k s (Some r) =>
        no_slash (sym_remote s) = true ->
        lookup_parse (c_obs c) r = Some (Some (k, s)) /\
        (forall k' s' r', In (OExport k' s' (Some r')) (c_obs c) ->
                          no_slash (sym_remote s') = true -> r = r' -> (k, s) = (k', s'))
    | OParse r (Some ks) =>
        (no_empty_component r = true ->
         lookup_export (c_obs c) (fst ks) (snd ks) = Some (Some r)) /\
        (forall r', In (OParse r' (Some ks)) (c_obs c) -> r = r')
    | OValidate rm _ RvOk => no_slash rm = true /\ rm <> LOCAL
    | ORtagExport s r =>
        no_slash (sym_remote s) = true -> sym_remote s <> LOCAL ->
        lookup_rtag_parse (c_obs c) r = Some (Some (Tag, s)) /\
        lookup_parse (c_obs c) r = Some None
    | OGitValid r => no_empty_component r = true
    | _ => True
    end.
Proof. exact okb_spec. Qed.

Check C33_export_import : forall (k : kind) (n rm r : bytes),
  to_git_ref_name k (n, rm) = Some r ->
  (parse_git_ref r = Some (k, (n, rm)) <-> no_slash rm = true).
Check C33_import_export : forall (r : bytes) (k : kind) (n rm : bytes),
  parse_git_ref r = Some (k, (n, rm)) ->
  (to_git_ref_name k (n, rm) = Some r <-> n <> [] /\ rm <> []).
Check C33_export_injective : forall k n rm k' n' rm' r,
  to_git_ref_name k (n, rm) = Some r -> to_git_ref_name k' (n', rm') = Some r ->
  no_slash rm = true -> no_slash rm' = true -> (k, (n, rm)) = (k', (n', rm')).
Check C33_parse_injective : forall r r' x,
  parse_git_ref r = Some x -> parse_git_ref r' = Some x -> r = r'.

(** The literals are what the statements are about (fails to compile if they change shape). *)
Example C33_literals :
  LOCAL = hex "676974" /\ C33_PARSE_HEADS_NS = hex "726566732f68656164732f"
  /\ REMOTES = hex "726566732f72656d6f7465732f" /\ C33_PARSE_TAGS_NS = hex "726566732f746167732f"
  /\ C33_PARSE_LOCAL_HEAD = hex "48454144" /\ SLASH = 47.
Proof. repeat split. Qed.

Example C33_nonvacuous :
  (* "main"@"origin" <-> refs/remotes/origin/main *)
  to_git_ref_name Bookmark (hex "6d61696e", hex "6f726967696e")
    = Some (hex "726566732f72656d6f7465732f6f726967696e2f6d61696e")
  /\ parse_git_ref (hex "726566732f72656d6f7465732f6f726967696e2f6d61696e")
    = Some (Bookmark, (hex "6d61696e", hex "6f726967696e"))
  (* "a/b"@git <-> refs/heads/a/b ; refs/heads/HEAD and refs/remotes/git/x are not imported *)
  /\ to_git_ref_name Bookmark (hex "612f62", LOCAL) = Some (hex "726566732f68656164732f612f62")
  /\ parse_git_ref (hex "726566732f68656164732f48454144") = None
  /\ parse_git_ref (hex "726566732f72656d6f7465732f6769742f78") = None
  (* the collision the '/' rule prevents: "c"@"a/b" and "b/c"@"a" export to the same ref *)
  /\ to_git_ref_name Bookmark (hex "63", hex "612f62") = to_git_ref_name Bookmark (hex "622f63", hex "61")
  /\ validate_remote_name true (hex "612f62") = RvWithSlash
  /\ validate_remote_name true LOCAL = RvReserved
  /\ validate_remote_name true (hex "6f726967696e") = RvOk.
Proof. repeat split. Qed.

Print Assumptions C33_export_import.
Print Assumptions C33_import_export.
Print Assumptions C33_export_injective.
Print Assumptions C33_parse_injective.
Print Assumptions C33_okb_spec.
