(** C05 — Materialized conflicts parse back to the same conflict.
    Model/Conflicts.v transcribes lib/src/conflicts.rs: [materialize_conflict_hunks] (styles
    diff, diff-experimental, snapshot, git with its fallback to the jj style when the number
    of sides is not 2), [build_hunk_sides], [write_diff_hunks], [detect_eol],
    [choose_materialized_conflict_marker_len], [parse_conflict], [parse_conflict_hunk] and its
    two sub-parsers. Marker bytes, lengths and label texts come from Gen/Tables.v.
    The hunk list (result of [files::merge_hunks]) and the two-input line diff used by the
    diff styles are inputs of the model: the theorems quantify over every hunk list of the
    stated shape and over every diff oracle that partitions its inputs at line boundaries. *)
From Verif Require Import Base.Prelude Gen.Tables Model.Conflicts Model.C05.
From Verif Require Import Proofs.C05Lines Proofs.C05Jj Proofs.C05Top Proofs.C05.
Local Open Scope N_scope.

(** For every marker style, every number of sides and hunks, LF or CRLF separator, labelled
    or not, terms with or without final newline, contents with marker look-alikes shorter
    than [L - 1]: parsing the materialized text with the same arity and marker length
    returns exactly the hunk list.
    [DiffOk D]: [D a b] is a list of (matching | different) pieces whose left parts
    concatenate to [a], right parts to [b], every piece empty or LF-terminated, matching
    pieces equal.  [WfHunks n hs]: every hunk is resolved or an odd-length merge of [n]
    sides, one is a conflict, resolved hunks are non-empty and not adjacent, terms of all
    hunks but the last are empty or LF-terminated.  [Dominated L hs]: [2 <= L] and no line
    of any term parses (at any length) as a marker of length [>= L - 1].
    [LabelsOk]: no LF in a label, last byte not CR. *)
Theorem C05_roundtrip :
  forall (D : list N -> list N -> list dhunk) (L n : nat) (eol : list N) (st : style)
         (labels : list (list N)) (hs : list (list (list N))),
    DiffOk D -> EolOk eol -> LabelsOk labels -> WfHunks n hs -> Dominated L hs ->
    parse_conflict (materialize_conflict_hunks D eol L hs st labels) n L = Some hs.
Proof. exact roundtrip_main. Qed.

(** The length jj chooses ([max existing marker length + increment], at least the minimum;
    constants from the source) dominates every line of the inputs, hence every hunk term
    whose lines are lines of the inputs ([LinesOf]: all terms of a line-level merge, conflict
    terms being line-aligned slices and resolved hunks concatenations of such slices). Uses
    [CONFLICT_MARKER_LEN_INCREMENT >= 2] and [MIN_CONFLICT_MARKER_LEN >= 2]. *)
Theorem C05_marker_len_dominates :
  forall (files : list (list N)) (hs : list (list (list N))),
    LinesOf files hs -> Dominated (choose_marker_len files) hs.
Proof. exact chooser_dominates. Qed.

(** The composition jj performs: chosen length, detected EOL. *)
Theorem C05_roundtrip_chosen :
  forall (D : list N -> list N -> list dhunk) (n : nat) (st : style) (labels : list (list N))
         (files : list (list N)) (hs : list (list (list N))),
    DiffOk D -> LabelsOk labels -> WfHunks n hs -> LinesOf files hs ->
    parse_conflict
      (materialize_conflict_hunks D (detect_eol files) (choose_marker_len files) hs st labels)
      n (choose_marker_len files) = Some hs.
Proof.
  intros D n st labels files hs HD Hl Hw Hs.
  apply roundtrip_main; auto using detect_eol_ok, chooser_dominates.
Qed.

(** Without the coalescing hypothesis: for any hunk list with a conflict, the parser returns
    the hunks with adjacent resolved hunks concatenated ([norm]) — resolved text between
    conflicts is returned verbatim. *)
Theorem C05_parse_materialize :
  forall (D : list N -> list N -> list dhunk) (L n : nat) (eol : list N) (st : style)
         (labels : list (list N)) (hs : list (list (list N))),
    (2 <= L)%nat -> DiffOk D -> EolOk eol -> LabelsOk labels ->
    Forall (hunk_wf L n) hs -> nonlast_lc hs ->
    (exists h, In h hs /\ is_resolved h = false) ->
    parse_conflict (materialize_conflict_hunks D eol L hs st labels) n L
    = Some (fst (norm [] hs) ++ flush (snd (norm [] hs))).
Proof.
  intros D L n eol st labels hs HL HD He Hl. exact (parse_materialize D L HL eol He HD n st labels Hl hs).
Qed.

(** The boolean hypothesis checker run on every correspondence case is sound: when it
    accepts a case, the model's parser inverts the model's printer on that case. *)
Theorem C05_case_sound :
  forall (c : case) (hs : list (list (list N))),
    c_merged c = inr hs ->
    hyps_b (files_sides c) (case_len c) c hs = true ->
    parse_conflict (model_out c) (files_sides c) (case_len c) = Some hs.
Proof. exact case_sound. Qed.

Theorem C05_lines_checker_sound :
  forall (files : list (list N)) (hs : list (list (list N))),
    forallb (forallb (lines_ofb files)) hs = true -> LinesOf files hs.
Proof. exact lines_of_b_sound. Qed.

(** Meaning of the property checker evaluated on the implementation's outputs. *)
Theorem C05_okb_spec :
  forall c : case,
    okb c = true <->
    c_panicked c = false /\
    match c_merged c with
    | inl content => c_out c = content
    | inr hs => Required c hs -> c_parsed c = Some hs
    end.
Proof. exact okb_spec. Qed.

Check C05_roundtrip :
  forall (D : list N -> list N -> list dhunk) (L n : nat) (eol : list N) (st : style)
         (labels : list (list N)) (hs : list (list (list N))),
    DiffOk D -> EolOk eol -> LabelsOk labels -> WfHunks n hs -> Dominated L hs ->
    parse_conflict (materialize_conflict_hunks D eol L hs st labels) n L = Some hs.
Check C05_marker_len_dominates :
  forall (files : list (list N)) (hs : list (list (list N))),
    LinesOf files hs -> Dominated (choose_marker_len files) hs.

(** Non-vacuity: a three-sided conflict after a resolved hunk, with an unterminated term, an
    empty term, a marker look-alike of length 7 and CR bytes, satisfies the hypotheses for
    [L = 11], CRLF separator and a labelled merge; the conclusion then holds for all styles. *)
Definition ex_hs : list (list (list N)) :=
  [ [hex "6b6565700a"];
    [hex "610a3c3c3c3c3c3c3c20780d0a62"; []; hex "2d2d200a630d"; hex "640a0a"; hex "610a"] ].
Definition ex_labels : list (list N) := [hex "6c656674"; []; hex "61206220"; hex "78"; []].
Definition trivial_diff (a b : list N) : list dhunk := [mk_dhunk false a b].

Lemma trivial_diff_ok : DiffOk trivial_diff.
Proof.
  intros a b Ha Hb. unfold trivial_diff. split; [cbn; apply app_nil_r|].
  split; [cbn; apply app_nil_r|]. constructor; [|constructor]. cbn. repeat split; auto. discriminate.
Qed.

Example C05_nonvacuous :
  WfHunks 3 ex_hs /\ Dominated 11 ex_hs /\ LabelsOk ex_labels /\
  (exists h t, In h ex_hs /\ In t h /\ ends_ok t = false) /\
  forall st, parse_conflict
               (materialize_conflict_hunks trivial_diff [CR; LF] 11 ex_hs st ex_labels) 3 11
             = Some ex_hs.
Proof.
  assert (Hw : WfHunks 3 ex_hs) by (apply wf_hunksb_sound; vm_compute; reflexivity).
  assert (Hd : Dominated 11 ex_hs) by (apply hunks_dominatedb_sound; vm_compute; reflexivity).
  assert (Hl : LabelsOk ex_labels) by (apply labels_okb_sound; vm_compute; reflexivity).
  repeat split; try assumption; try apply Hw; try apply Hd.
  - exists (nth 1 ex_hs []), (hex "2d2d200a630d"). repeat split; vm_compute; auto.
  - intros st. apply C05_roundtrip; auto using trivial_diff_ok. right. reflexivity.
Qed.

(** Finding (word-level merges): with [merge.hunk-level = "word"] a resolved hunk can contain
    lines that are in no input, so the chosen length does not dominate them. Witness: the
    three inputs below, whose word-level merge (replayed on the implementation by the
    harness pool "word-synthesized-markers") is [wl_hs]; all conflict terms consist of lines of
    the inputs, the shape hypotheses hold, but the text parses to different hunks. *)
Definition wl_files : list (list N) :=
  [ hex "3c3c3c3c3c3c3c620a78300a7c7c7c7c7c7c7c620a78310a3d3d3d3d3d3d3d620a78320a3e3e3e3e3e3e3e620a78330a7365700a700a";
    hex "613c3c3c3c3c3c3c620a78300a617c7c7c7c7c7c7c620a78310a613d3d3d3d3d3d3d620a78320a613e3e3e3e3e3e3e620a78330a7365700a6f0a";
    hex "613c3c3c3c3c3c3c0a78300a617c7c7c7c7c7c7c0a78310a613d3d3d3d3d3d3d0a78320a613e3e3e3e3e3e3e0a78330a7365700a710a" ].
Definition wl_hs : list (list (list N)) :=
  [ [hex "3c3c3c3c3c3c3c0a78300a7c7c7c7c7c7c7c0a78310a3d3d3d3d3d3d3d0a78320a3e3e3e3e3e3e3e0a78330a7365700a"];
    [hex "700a"; hex "6f0a"; hex "710a"] ].

Lemma C05_word_level_refuted :
  wf_hunksb 2 wl_hs = true /\
  forallb (fun h => is_resolved h || forallb (lines_ofb wl_files) h) wl_hs = true /\
  hunks_dominatedb (choose_marker_len wl_files) wl_hs = false /\
  forall st,
    parse_conflict
      (materialize_conflict_hunks trivial_diff (detect_eol wl_files) (choose_marker_len wl_files)
         wl_hs st [])
      2 (choose_marker_len wl_files) <> Some wl_hs.
Proof.
  repeat split; try (vm_compute; reflexivity).
  intros st. destruct st; vm_compute; discriminate.
Qed.

Print Assumptions C05_roundtrip.
Print Assumptions C05_roundtrip_chosen.
Print Assumptions C05_case_sound.
