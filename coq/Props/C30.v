(** C30 — Matcher directory pruning is sound.
    Model/C30.v transcribes lib/src/matchers.rs (Files/Prefix/Globs/Everything/Nothing and
    the Union/Intersection/Difference [visit] tables, arm by arm) over [RepoPathTree].
    Component names are any type with a decidable equality; trees, path sets, pattern sets
    and the nesting of combinators are unbounded. The glob/regex engine is an oracle [gm]. *)
From Verif Require Import Base.Prelude Model.C30 Proofs.C30.
Local Open Scope N_scope.

Section Statements.
  Context {name pid : Type} (neqb : name -> name -> bool).
  Hypothesis neqb_spec : forall x y, neqb x y = true <-> x = y.
  Variable gm : bool -> pid -> list name -> bool.

  (** For EVERY matcher [m] (any trees, any nesting of the combinators) and EVERY directory
      [d]: [Nothing] is answered only if no path strictly below [d] matches;
      [AllRecursively] only if every path strictly below [d] matches; and a [Specific]
      answer lists every matching direct child file in [files] and the first component of
      every deeper matching path in [dirs]. In prefix-glob mode the oracle must satisfy
      [gm_prefix_closed] (the prefix regexes end in [(?:/|$)]). *)
  Theorem C30_all : forall m : @matcher name pid,
    (uses_prefix_globs m = true -> gm_prefix_closed gm) ->
    forall d : list name,
      (mvisit neqb gm m d = VNothing ->
       forall q, q <> [] -> matches neqb gm m (d ++ q) = false) /\
      (mvisit neqb gm m d = AllRecursively ->
       forall q, q <> [] -> matches neqb gm m (d ++ q) = true) /\
      (forall D F, mvisit neqb gm m d = Specific D F ->
       forall q, q <> [] -> matches neqb gm m (d ++ q) = true ->
         (exists f, q = [f] /\ vset_mem neqb f F = true)
         \/ (exists c q', q = c :: q' /\ q' <> [] /\ vset_mem neqb c D = true)).
  Proof.
    intros m Hc d. apply (sound_clauses neqb gm). apply (all_sound neqb neqb_spec gm); auto.
  Qed.

  (** In particular for every matcher built from an expression by the constructors
      ([FilesMatcher::new], [PrefixMatcher::new], [GlobsMatcherBuilder::build], ...). *)
  Theorem C30_build : forall e : @mexpr name pid,
    (uses_prefix_globs (build neqb e) = true -> gm_prefix_closed gm) ->
    forall d q, q <> [] ->
      visit_allows neqb (mvisit neqb gm (build neqb e) d) q
                   (matches neqb gm (build neqb e) (d ++ q)) = true.
  Proof. intros e Hc. apply (all_sound neqb neqb_spec gm); auto. Qed.

  (** The leaf matchers are sound for EVERY tree (however it was built). *)
  Theorem C30_base_files : forall (t : @tree name files_kind) d q, q <> [] ->
    visit_allows neqb (files_visit neqb t d) q (files_matches neqb t (d ++ q)) = true.
  Proof. exact (files_sound neqb neqb_spec). Qed.

  Theorem C30_base_prefix : forall (t : @tree name prefix_kind) d q, q <> [] ->
    visit_allows neqb (prefix_visit neqb t d) q (prefix_matches neqb t (d ++ q)) = true.
  Proof. exact (prefix_sound neqb neqb_spec). Qed.

  Theorem C30_base_globs : forall pm (t : @tree name (option (list pid))) d q,
    (pm = true -> gm_prefix_closed gm) -> q <> [] ->
    visit_allows neqb (globs_visit neqb gm pm t d) q (globs_matches neqb gm pm t (d ++ q)) = true.
  Proof. exact (globs_sound neqb neqb_spec gm). Qed.

  (** The three [visit] tables preserve soundness, for arbitrary answers of the inputs. *)
  Theorem C30_combinators : forall (v1 v2 : @visit name) q b1 b2,
    visit_allows neqb v1 q b1 = true -> visit_allows neqb v2 q b2 = true ->
    visit_allows neqb (union_visit v1 (fun _ => v2)) q (b1 || b2) = true
    /\ visit_allows neqb (intersection_visit neqb v1 (fun _ => v2)) q (b1 && b2) = true
    /\ visit_allows neqb (difference_visit v2 (fun _ => v1)) q (b1 && negb b2) = true.
  Proof.
    intros v1 v2 q b1 b2 H1 H2. repeat split.
    - first [apply (union_sound neqb neqb_spec) | apply (union_sound neqb)]; auto.
    - first [apply (intersection_sound neqb neqb_spec) | apply (intersection_sound neqb)]; auto.
    - first [apply (difference_sound neqb neqb_spec) | apply (difference_sound neqb)]; auto.
  Qed.

  (** What [visit_allows] says, clause by clause. *)
  Theorem C30_allows_meaning : forall (v : @visit name) q b, q <> [] ->
    (visit_allows neqb v q b = true <->
     match v with
     | VNothing => b = false
     | AllRecursively => b = true
     | Specific D F =>
         b = true ->
         (exists f, q = [f] /\ vset_mem neqb f F = true)
         \/ (exists c q', q = c :: q' /\ q' <> [] /\ vset_mem neqb c D = true)
     end).
  Proof.
    intros v q b Hq. destruct q as [|c q']; [congruence|]. destruct v as [|D F|]; cbn.
    - tauto.
    - destruct b; cbn.
      + destruct q' as [|c2 q'']; cbn.
        * split; [intros H _; left; eauto|].
          intros H. destruct (H eq_refl) as [(f & E & M)|(c0 & q0 & E & N & _)].
          -- inversion E; subst; auto.
          -- inversion E; subst; congruence.
        * split; [intros H _; right; exists c, (c2 :: q''); repeat split; auto; discriminate|].
          intros H. destruct (H eq_refl) as [(f & E & _)|(c0 & q0 & E & _ & M)].
          -- discriminate.
          -- inversion E; subst; auto.
      + split; [discriminate|reflexivity] || (split; auto; discriminate).
    - rewrite negb_true_iff. tauto.
  Qed.
End Statements.

(** Meaning of the checker run on the implementation's recorded answers: every recorded
    [visit] answer allows every recorded [matches] answer below that directory, and the
    recorded prefix-mode glob verdicts satisfy [gm_prefix_closed] on every asked tail (all
    contiguous sub-ranges of the recorded paths). *)
Theorem C30_okb_spec : forall c : case,
  okb c = true <->
  c_panicked c = false /\
  (forall d v p b q, In (d, v) (c_visits c) -> In (p, b) (c_matches c) -> p = d ++ q ->
                     visit_allows N.eqb v q b = true) /\
  (forall pid t, In (true, pid, t) (c_globs c) ->
   forall t' q, In t' (flat_map (fun pb => subranges (fst pb)) (c_matches c)) -> t' = t ++ q ->
                gm_table (c_globs c) true pid t' = true).
Proof. exact okb_spec. Qed.

Check @C30_all : forall name pid (neqb : name -> name -> bool),
  (forall x y, neqb x y = true <-> x = y) ->
  forall (gm : bool -> pid -> list name -> bool) (m : @matcher name pid),
  (uses_prefix_globs m = true -> gm_prefix_closed gm) ->
  forall d : list name,
    (mvisit neqb gm m d = VNothing -> forall q, q <> [] -> matches neqb gm m (d ++ q) = false) /\
    (mvisit neqb gm m d = AllRecursively -> forall q, q <> [] -> matches neqb gm m (d ++ q) = true) /\
    (forall D F, mvisit neqb gm m d = Specific D F ->
     forall q, q <> [] -> matches neqb gm m (d ++ q) = true ->
       (exists f, q = [f] /\ vset_mem neqb f F = true)
       \/ (exists c q', q = c :: q' /\ q' <> [] /\ vset_mem neqb c D = true)).

(** Non-vacuity: a nested expression with all three kinds of answers, and an oracle that is
    prefix-closed (pattern 0 = "*": matches every non-empty tail in prefix mode). *)
Definition ex_gm (pm : bool) (pid : N) (tail : list N) : bool :=
  match tail with [] => false | [_] => true | _ => pm end.
Definition ex_expr : @mexpr N N :=
  MDifference (MUnion (MFiles [[1; 2]; [3]]) (MGlobs true [([4], 0)])) (MPrefix [[1; 5]]).

Example C30_nonvacuous :
  gm_prefix_closed ex_gm
  /\ mvisit N.eqb ex_gm (build N.eqb ex_expr) [] = Specific (VSet [1; 4]) (VSet [3])
  /\ mvisit N.eqb ex_gm (build N.eqb ex_expr) [4; 7] = AllRecursively
  /\ mvisit N.eqb ex_gm (build N.eqb ex_expr) [2] = VNothing
  /\ matches N.eqb ex_gm (build N.eqb ex_expr) [1; 2] = true
  /\ matches N.eqb ex_gm (build N.eqb ex_expr) [4; 7; 8] = true
  /\ matches N.eqb ex_gm (build N.eqb ex_expr) [2; 2] = false.
Proof.
  split; [|repeat split].
  intros pid t q H. destruct t as [|a [|b t]]; cbn in *; try discriminate.
  - destruct q; reflexivity.
  - reflexivity.
Qed.

Print Assumptions C30_all.
Print Assumptions C30_build.
Print Assumptions C30_combinators.
Print Assumptions C30_okb_spec.
