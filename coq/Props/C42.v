(** C42 — Immutable commits are never rewritten.

    Model (Model/C42.v): an append-only commit store (parents at smaller positions, 0 = root),
    a view (heads, bookmarks, tags, working-copy commits), the configured
    [immutable_heads()] expression, [immb] = ancestors of its value plus the root,
    [check_targets]/[refuses] = [check_rewritable] as each command calls it, the snapshot and
    [finish_transaction] branches on an immutable working-copy commit, and [accept], which
    replays one observed CLI step against those decisions.  All statements are about every
    store, view, configuration, command and every accepted sequence of steps. *)
From Verif Require Import Base.Prelude Model.C42 Proofs.C42.
From Coq Require Import Arith.
Import ListNotations.

(** Ancestry is decided by [is_anc] on every well-formed store. *)
Theorem C42_ancestry_decided : forall (g : graph) (a d : nat),
  wf_graph g -> (is_anc g a d = true <-> anc g a d).
Proof. exact is_anc_spec. Qed.

(** The immutable set is closed under taking ancestors, whatever the configuration. *)
Theorem C42_immutable_downclosed : forall (g : graph) (v : view) (e : hexpr) (a d : nat),
  wf_graph g -> anc g a d -> immb g v e d = true -> immb g v e a = true.
Proof. exact immb_downclosed. Qed.

(** Checking the targets is enough: descendants of mutable commits are mutable. *)
Theorem C42_descendants_mutable : forall (g : graph) (v : view) (e : hexpr) (ts : list nat),
  wf_graph g ->
  (forall t, In t ts -> immb g v e t = false) ->
  forall c, (exists t, In t ts /\ anc g t c) -> immb g v e c = false.
Proof.
  intros g v e ts Hg Hts c Hc. apply (descendants_mutable g v e ts Hg Hts).
  now apply descb_spec.
Qed.

(** In every accepted run, from any well-formed store: whenever a successful command that was
    not given the explicit override [--ignore-immutable] records
    a visible immutable commit [x] as a predecessor, or makes it invisible, then [x] is the
    invoking workspace's working-copy commit [w], [w] was immutable when the command started,
    and the command is one that acts on [@] implicitly ([jj commit], [jj new], [jj edit]).
    No other immutable commit is ever touched (the descendant rebase skips immutable
    commits). *)
Theorem C42_no_rewrite : forall (evs : list event) (r r' : repo),
  wf_graph (r_graph r) -> run r evs = Some r' ->
  run_prop (fun r ev =>
    e_status ev = 0%N -> e_override ev = false ->
    forall x, In x (vis_list (r_graph r) (r_view r)) ->
      immb (r_graph r) (r_view r) (e_cfg ev) x = true ->
      (In x (rew_eff ev) \/ visb (r_graph r ++ e_new ev) (e_view ev) x = false) ->
      exists w, wc_of (r_view r) (e_ws ev) = Some w
                /\ immb (r_graph r) (r_view r) (e_cfg ev) w = true
                /\ implicit_wc_cmd (e_cmd ev) = true
                /\ x = w) r evs.
Proof. exact run_no_rewrite. Qed.

(** When the working-copy commit of the invoking workspace is mutable at command start, the
    exception cannot apply: nothing immutable is rewritten or hidden at all. *)
Corollary C42_no_rewrite_mutable_wc : forall (r r' : repo) (ev : event),
  wf_graph (r_graph r) -> accept r ev = Some r' -> e_status ev = 0%N -> e_override ev = false ->
  (forall w, wc_of (r_view r) (e_ws ev) = Some w ->
             immb (r_graph r) (r_view r) (e_cfg ev) w = false) ->
  forall x, In x (vis_list (r_graph r) (r_view r)) ->
    immb (r_graph r) (r_view r) (e_cfg ev) x = true ->
    ~ In x (rew_eff ev) /\ visb (r_graph r ++ e_new ev) (e_view ev) x = true.
Proof.
  intros r r' ev Hg Ha Hst Hov Hwc x Hx Hi.
  assert (N : ~ Touched r ev x).
  { intros T. destruct (accept_no_rewrite r ev r' Hg Ha Hst Hov x Hx Hi T) as [w [Ew [Hw _]]].
    rewrite (Hwc w Ew) in Hw. discriminate. }
  split.
  - intros H. apply N. now left.
  - destruct (visb (r_graph r ++ e_new ev) (e_view ev) x) eqn:E; [reflexivity|].
    exfalso. apply N. now right.
Qed.

(** The exception needs outside help.  With a single workspace, an unchanged
    [immutable_heads()] configuration and a mutable working-copy commit at the start, every
    operation leaves the working-copy commit mutable (checked on every observed step), so in
    no accepted run is any visible immutable commit ever recorded as rewritten or hidden. *)
Theorem C42_single_workspace_clean : forall (evs : list event) (r r' : repo) (e : hexpr) (ws : N),
  wf_graph (r_graph r) ->
  (forall ev, In ev evs -> e_cfg ev = e /\ e_ws ev = ws /\ e_cmd ev <> CWorkspaceAdd
                            /\ e_override ev = false) ->
  (forall w, wc_of (r_view r) ws = Some w -> immb (r_graph r) (r_view r) e w = false) ->
  run r evs = Some r' ->
  run_prop (fun r ev =>
    e_status ev = 0%N ->
    forall x, In x (vis_list (r_graph r) (r_view r)) ->
      immb (r_graph r) (r_view r) (e_cfg ev) x = true ->
      ~ (In x (rew_eff ev) \/ visb (r_graph r ++ e_new ev) (e_view ev) x = false)) r evs.
Proof. exact run_untouched. Qed.

(** A command succeeds only if every commit it passes to [check_rewritable] is mutable under
    the effective setting ([eff_cfg]: the configured heads, or only the root commit with
    [--ignore-immutable]); a refusal names an immutable target; a refused or failed command adds no operation and
    leaves view and store alone. *)
Theorem C42_guarded : forall (evs : list event) (r r' : repo),
  wf_graph (r_graph r) -> run r evs = Some r' ->
  run_prop (fun r ev =>
    (e_status ev = 0%N ->
       forall t, In t (check_targets (r_graph r) (r_view r) (e_cmd ev)) ->
                 immb (r_graph r) (r_view r) (eff_cfg ev) t = false)
    /\ (e_status ev = 1%N ->
          exists t, In t (check_targets (r_graph r) (r_view r) (e_cmd ev))
                    /\ immb (r_graph r) (r_view r) (eff_cfg ev) t = true)
    /\ (e_status ev <> 0%N ->
          e_nops ev = 0 /\ e_view ev = r_view r /\ e_new ev = [] /\ e_rewritten ev = [])) r evs.
Proof. exact run_guarded. Qed.

(** A snapshot of a modified working copy whose commit is immutable rewrites nothing, hides
    nothing, and makes the new working-copy commit a fresh child of the old one. *)
Theorem C42_snapshot_on_immutable : forall (evs : list event) (r r' : repo),
  wf_graph (r_graph r) -> run r evs = Some r' ->
  run_prop (fun r ev =>
    e_status ev = 0%N -> e_cmd ev = CSnapshot ->
    forall w, wc_of (r_view r) (e_ws ev) = Some w ->
      immb (r_graph r) (r_view r) (eff_cfg ev) w = true ->
      rew_eff ev = []
      /\ (forall x, In x (vis_list (r_graph r) (r_view r)) ->
                    visb (r_graph r ++ e_new ev) (e_view ev) x = true)
      /\ (forall w', 0 < e_nops ev -> wc_of (e_view ev) (e_ws ev) = Some w' ->
                     length (r_graph r) <= w' /\ parents (r_graph r ++ e_new ev) w' = [w])) r evs.
Proof. exact run_snapshot. Qed.

(** Meaning of the checker that judges the real observations ([okb] = [run_okb true],
    [known_class] uses [run_okb false]). *)
Theorem C42_checker_spec : forall (strict : bool) (evs : list event) (g : graph) (v : view),
  run_okb strict g v evs = true <->
  (fix ok (g : graph) (v : view) (evs : list event) : Prop :=
     match evs with
     | [] => True
     | ev :: t =>
         ((e_override ev = false -> forall x, In x (e_imm_pre ev) ->
             (In x (rew_eff ev) \/ ~ In x (e_vis_post ev)) ->
             strict = false
             /\ exists w, wc_of v (e_ws ev) = Some w /\ In w (e_imm_pre ev)
                          /\ implicit_wc_cmd (e_cmd ev) = true
                          /\ x = w)
          /\ (e_status ev <> 0%N -> e_nops ev = 0 /\ v = e_view ev))
         /\ ok (g ++ e_new ev) (e_view ev) t
     end) g v evs.
Proof.
  intros strict evs. induction evs as [|ev t IH]; intros g v; cbn [run_okb]; [tauto|].
  rewrite andb_true_iff, IH. split; intros [H1 H2]; (split; [|exact H2]).
  - exact (event_okb_spec strict g v ev H1).
  - exact (event_okb_complete strict g v ev H1).
Qed.

(** Every trace the model accepts passes the non-strict checker. *)
Theorem C42_accepted_runs_ok : forall (evs : list event) (r r' : repo),
  wf_graph (r_graph r) -> run r evs = Some r' ->
  run_okb false (r_graph r) (r_view r) evs = true.
Proof. exact run_accept_ok. Qed.

(** The statement without the exception is false of the faithful model: [jj commit] never
    calls [check_rewritable], so a working-copy commit that is already immutable when the
    command starts is rewritten (known finding, class [wc-commit-immutable-at-start]). *)
Definition C42_full : Prop := forall (r r' : repo) (ev : event),
  wf_graph (r_graph r) -> accept r ev = Some r' -> e_status ev = 0%N -> e_override ev = false ->
  forall x, In x (vis_list (r_graph r) (r_view r)) ->
    immb (r_graph r) (r_view r) (e_cfg ev) x = true ->
    ~ In x (rew_eff ev).

Definition witness_repo : repo :=
  mk_repo [[]; [0]; [1]] (mk_view [2] [] [] [(0%N, 2)]) [].
Definition witness_event : event :=
  mk_event 0%N (HCommit 2) false CCommit 0%N 1 [[1]; [3]] [4] [2]
           (mk_view [4] [] [] [(0%N, 4)]) [0; 1; 2] [0; 1; 3; 4].

Theorem C42_full_refuted : ~ C42_full.
Proof.
  intros H.
  assert (A : accept witness_repo witness_event
              = Some (mk_repo [[]; [0]; [1]; [1]; [3]] (mk_view [4] [] [] [(0%N, 4)]) [4]))
    by (vm_compute; reflexivity).
  refine (H witness_repo _ witness_event _ A eq_refl eq_refl 2 _ _ _).
  - apply wf_graphb_spec. vm_compute. reflexivity.
  - vm_compute. auto.
  - vm_compute. reflexivity.
  - cbn. auto.
Qed.

(** Non-vacuity: a run with a refusal ([jj describe] of a commit under bookmark 1), an accepted
    rewrite of a mutable commit with its descendant, and a snapshot on an immutable [@]. *)
Example C42_nonvacuous :
  let r0 := mk_repo [[]; [0]; [1]; [2]] (mk_view [3] [(1%N, 1)] [] [(0%N, 3)]) [] in
  let e1 := mk_event 0%N (HBookmark 1) false (CDescribe [1]) 1%N 0 [] [] []
                     (mk_view [3] [(1%N, 1)] [] [(0%N, 3)]) [0; 1] [0; 1; 2; 3] in
  let e2 := mk_event 0%N (HBookmark 1) false (CDescribe [2]) 0%N 1 [[1]; [4]] [] [2; 3]
                     (mk_view [5] [(1%N, 1)] [] [(0%N, 5)]) [0; 1] [0; 1; 4; 5] in
  let e3 := mk_event 0%N (HCommit 5) false CSnapshot 0%N 1 [[5]] [] []
                     (mk_view [6] [(1%N, 1)] [] [(0%N, 6)]) [0; 1; 4; 5] [0; 1; 4; 5; 6] in
  (* the same describe of the bookmarked commit with the explicit override: accepted *)
  let e1o := mk_event 0%N (HBookmark 1) true (CDescribe [1]) 0%N 1 [[0]; [4]; [5]; [6]] [] [1; 2; 3]
                      (mk_view [7] [(1%N, 4)] [] [(0%N, 7)]) [0; 1] [0; 4; 5; 6; 7] in
  wf_graphb (r_graph r0) = true
  /\ (exists r1, run r0 [e1o] = Some r1)
  /\ run_okb true (r_graph r0) (r_view r0) [e1o] = true
  /\ (exists r3, run r0 [e1; e2; e3] = Some r3)
  /\ run_okb true (r_graph r0) (r_view r0) [e1; e2; e3] = true
  /\ refuses (r_graph r0) (r_view r0) (HBookmark 1) (CDescribe [1]) = true.
Proof. vm_compute. repeat split; eauto. Qed.

Print Assumptions C42_no_rewrite.
Print Assumptions C42_accepted_runs_ok.
Print Assumptions C42_single_workspace_clean.
Print Assumptions C42_full_refuted.
