(** C06 — An unedited conflicted file is snapshotted as the same conflict.
    Model/C06.v transcribes [conflicts::update_from_content] (lib/src/conflicts.rs:1056-1132)
    and the conflict branch of [write_path_to_store] (lib/src/local_working_copy.rs:1925-1987)
    over a content-addressed store in which a file id is the content it names
    ([option (list N)], [None] = absent term). [simplify] / [update_from_simplified] are the
    C01 model (Model/Merge.v), [parse_conflict] / [materialize_conflict_hunks] the C05 model.
    [MH] is [files::merge_hunks] with the store's merge options, an oracle: the theorems hold
    for every [MH]; what they need of its result is stated as hypotheses ([WfHunks],
    [Dominated] as in C05, discharged for line-level merges by C05_marker_len_dominates). *)
From Verif Require Import Base.Prelude Gen.Tables Model.Merge Model.Conflicts Model.C06.
From Verif Require Import Proofs.C05Lines Proofs.C05Jj Proofs.C05Top Proofs.C05 Proofs.C06.
Local Open Scope N_scope.

Section Statements.
  Variable MH : list (list N) -> list N + list (list (list N)).

  (** Unedited conflict: for every conflict of any arity — redundant term pairs and absent
      terms included — if the simplified conflict's contents merge to the hunk list [hs] and
      the file holds the materialization of [hs] (any style, labels, EOL, any dominating
      marker length), the result is the original, UNSIMPLIFIED id vector. *)
  Theorem C06_unchanged :
    forall (ids : list (option (list N))) (D : list N -> list N -> list dhunk) (eol : list N)
           (L : nat) (st : style) (labels : list (list N)) (hs : list (list (list N))),
      MH (map read_fid (simplify fid_eqb ids)) = inr hs ->
      DiffOk D -> EolOk eol -> LabelsOk labels ->
      WfHunks (nsides (simplify fid_eqb ids)) hs -> Dominated L hs ->
      update_from_content MH ids (materialize_conflict_hunks D eol L hs st labels) L = ids.
  Proof. exact (unchanged_conflict MH). Qed.

  (** ... and if the contents merge cleanly to [c] (what checkout then writes) and [c]
      contains no valid markers, again nothing changes. *)
  Theorem C06_unchanged_resolved :
    forall (ids : list (option (list N))) (L : nat) (c : list N),
      MH (map read_fid (simplify fid_eqb ids)) = inl c ->
      parse_conflict c (nsides (simplify fid_eqb ids)) L = None ->
      update_from_content MH ids c L = ids.
  Proof. exact (unchanged_resolved MH). Qed.

  (** Through the working copy: the whole tree value — ids and executable bits of every
      term — is kept when the file on disk is the materialization. *)
  Theorem C06_snapshot_unchanged :
    forall (vals : list (option (list N * bool))) (D : list N -> list N -> list dhunk)
           (eol : list N) (L : nat) (st : style) (labels : list (list N))
           (hs : list (list (list N))) (disk_exec : bool),
      (3 <= length vals)%nat ->
      MH (map read_fid (simplify fid_eqb (map (option_map fst) vals))) = inr hs ->
      DiffOk D -> EolOk eol -> LabelsOk labels ->
      WfHunks (nsides (simplify fid_eqb (map (option_map fst) vals))) hs -> Dominated L hs ->
      snapshot_conflict MH vals (materialize_conflict_hunks D eol L hs st labels) disk_exec L
      = Some vals.
  Proof. exact (snapshot_unchanged MH). Qed.

  (** Content without valid markers of the right arity becomes one normal file holding that
      content (unless the old merge was already resolved to exactly that content). *)
  Theorem C06_no_markers :
    forall (ids : list (option (list N))) (L : nat) (content : list N),
      parse_conflict content (nsides (simplify fid_eqb ids)) L = None ->
      (forall old, MH (map read_fid (simplify fid_eqb ids)) = inl old -> old <> content) ->
      update_from_content MH ids content L = [Some content].
  Proof. exact (no_markers MH). Qed.

  (** Editing only resolved regions: materialize any hunk list [hs'] of the right shape that
      differs from the old one (e.g. the old one with a resolved hunk replaced); the result
      is the write-back of [hs']. *)
  Theorem C06_resolved_region_edit :
    forall (ids : list (option (list N))) (D : list N -> list N -> list dhunk) (eol : list N)
           (L : nat) (st : style) (labels : list (list N)) (hs' : list (list (list N))),
      DiffOk D -> EolOk eol -> LabelsOk labels ->
      WfHunks (nsides (simplify fid_eqb ids)) hs' -> Dominated L hs' ->
      (forall old, MH (map read_fid (simplify fid_eqb ids)) = inr old -> old <> hs') ->
      update_from_content MH ids (materialize_conflict_hunks D eol L hs' st labels) L
      = write_back ids hs'.
  Proof. exact (edited_written_back MH). Qed.
End Statements.

(** Any number of successive snapshots of the unedited file (stat info changed each time,
    any executable bits on disk): the model of [process_present_file] carries the stored
    marker length ([materialized_conflict_data]) from one snapshot to the next, so after
    EVERY snapshot the tree value is the original conflict and the stored length is still
    the one the file was materialized with — also when that length exceeds the minimum. *)
Theorem C06_snapshot_sequence_unchanged :
  forall (MH : list (list N) -> list N + list (list (list N)))
         (vals : list (option (list N * bool))) (D : list N -> list N -> list dhunk)
         (eol : list N) (L : nat) (st : style) (labels : list (list N))
         (hs : list (list (list N))) (execs : list bool),
    (3 <= length vals)%nat ->
    MH (map read_fid (simplify fid_eqb (map (option_map fst) vals))) = inr hs ->
    DiffOk D -> EolOk eol -> LabelsOk labels ->
    WfHunks (nsides (simplify fid_eqb (map (option_map fst) vals))) hs -> Dominated L hs ->
    wc_run MH (vals, Some L) (materialize_conflict_hunks D eol L hs st labels) execs
    = map (fun _ => Some (vals, Some L)) execs.
Proof. exact wc_run_unchanged. Qed.

Theorem C06_seq_okb_spec :
  forall c : case,
    seq_okb c = true <->
    forall e, In e (c_seq c) -> snd (fst e) = Some (c_vals c) /\ snd e = Some (c_len c).
Proof. exact seq_okb_spec. Qed.

(** A line without a conflict-start marker of length [>= L] anywhere: nothing parses. *)
Theorem C06_no_start_no_parse :
  forall (L n : nat) (content : list N),
    no_start_b L content = true -> parse_conflict content n L = None.
Proof. exact no_start_parse_none. Qed.

(** What the write-back writes. Side [j] of the new simplified conflict holds the
    concatenation of what every hunk gives it: the (edited) resolved text, identical on all
    sides, and its own term of each conflict hunk; an absent side stays absent iff it
    receives no byte. *)
Theorem C06_write_back_contents :
  forall (ids : list (option (list N))) (hs : list (list (list N))) (j : nat),
    Forall (fun h => length h = 1%nat \/ length h = length (simplify fid_eqb ids)) hs ->
    (j < length (simplify fid_eqb ids))%nat ->
    nth_error
      (map (fun p => new_id (fst p) (snd p))
           (combine (fold_left add_hunk hs (map (fun _ => []) (simplify fid_eqb ids)))
                    (simplify fid_eqb ids))) j
    = Some (new_id (side_content j hs) (nth j (simplify fid_eqb ids) None)).
Proof. exact write_back_simplified. Qed.

Theorem C06_edit_lands_on_every_side :
  forall (j : nat) (hs1 : list (list (list N))) (r : list N) (hs2 : list (list (list N))),
    side_content j (hs1 ++ [r] :: hs2) = side_content j hs1 ++ r ++ side_content j hs2.
Proof. exact side_content_edit. Qed.

(** The result has the original arity; positions that survived simplification receive the
    new simplified ids, every other position (the redundant pairs) keeps its id. *)
Theorem C06_write_back_lands :
  forall (ids : list (option (list N))) (hs : list (list (list N))),
    Nat.odd (length ids) = true ->
    let s := simplify fid_eqb ids in
    let new_ids := map (fun p => new_id (fst p) (snd p))
                       (combine (fold_left add_hunk hs (map (fun _ => []) s)) s) in
    length new_ids = length s /\
    length (write_back ids hs) = length ids /\
    (length s = length ids -> write_back ids hs = new_ids) /\
    (length s <> length ids ->
       (forall i, ~ In i (simplified_mapping fid_eqb ids) ->
          nth_error (write_back ids hs) i = nth_error ids i) /\
       (forall j i, nth_error (simplified_mapping fid_eqb ids) j = Some i ->
          nth_error (write_back ids hs) i = nth_error new_ids j)).
Proof. exact write_back_lands. Qed.

(** The boolean hypothesis checker run on every correspondence case ([hyps6_b], part of the
    correspondence verdict) is sound: when it accepts the real merge result [hs] of a case,
    the model returns the input ids on the materialization of [hs]; when it accepts an edited
    hunk list, the model returns its write-back. *)
Theorem C06_case_unchanged_sound :
  forall (c : case) (hs : list (list (list N))),
    c_mh c = inr hs -> hyps6_b c hs = true ->
    update_from_content (case_MH c) (case_ids c) (materialize_of c hs) (N.to_nat (c_len c))
    = case_ids c.
Proof. exact case_unchanged_sound. Qed.

Theorem C06_case_edit_sound :
  forall (c : case) (hs hs' : list (list (list N))),
    c_mh c = inr hs -> hyps6_b c hs' = true -> hs <> hs' ->
    update_from_content (case_MH c) (case_ids c) (materialize_of c hs') (N.to_nat (c_len c))
    = write_back (case_ids c) hs'.
Proof. exact case_edit_sound. Qed.

(** Meaning of the property checker evaluated on the implementation's outputs. *)
Theorem C06_okb_spec : forall c : case, okb c = true <-> C06_ok c.
Proof. exact okb_spec. Qed.

Check C06_unchanged :
  forall (MH : list (list N) -> list N + list (list (list N)))
         (ids : list (option (list N))) (D : list N -> list N -> list dhunk) (eol : list N)
         (L : nat) (st : style) (labels : list (list N)) (hs : list (list (list N))),
    MH (map read_fid (simplify fid_eqb ids)) = inr hs ->
    DiffOk D -> EolOk eol -> LabelsOk labels ->
    WfHunks (nsides (simplify fid_eqb ids)) hs -> Dominated L hs ->
    update_from_content MH ids (materialize_conflict_hunks D eol L hs st labels) L = ids.

(** Non-vacuity: a 3-sided id vector with a redundant pair and an absent term; its
    simplification has 2 sides (one base absent); the hypotheses hold for the conflict hunk
    of its contents, and the conclusion gives back all 5 terms. *)
Definition ex_ids : list (option (list N)) :=
  [Some (hex "610a"); Some (hex "780a"); Some (hex "780a"); None; Some (hex "620a")].
Definition ex_hs : list (list (list N)) := [[hex "610a"; []; hex "620a"]].
Definition ex_MH (_ : list (list N)) : list N + list (list (list N)) := inr ex_hs.
Definition trivial_diff (a b : list N) : list dhunk := [mk_dhunk false a b].

Lemma trivial_diff_ok : DiffOk trivial_diff.
Proof.
  intros a b Ha Hb. unfold trivial_diff. split; [cbn; apply app_nil_r|].
  split; [cbn; apply app_nil_r|]. constructor; [|constructor]. cbn. repeat split; auto. discriminate.
Qed.

Example C06_nonvacuous :
  simplify fid_eqb ex_ids = [Some (hex "610a"); None; Some (hex "620a")] /\
  forall st,
    update_from_content ex_MH ex_ids
      (materialize_conflict_hunks trivial_diff [LF] 7 ex_hs st []) 7 = ex_ids.
Proof.
  split; [vm_compute; reflexivity|]. intros st.
  apply C06_unchanged; try reflexivity.
  - exact trivial_diff_ok.
  - left. reflexivity.
  - constructor.
  - apply wf_hunksb_sound. vm_compute. reflexivity.
  - apply hunks_dominatedb_sound. vm_compute. reflexivity.
Qed.

Print Assumptions C06_unchanged.
Print Assumptions C06_snapshot_unchanged.
Print Assumptions C06_resolved_region_edit.
Print Assumptions C06_write_back_lands.
