(** C38 — Annotations blame the commit that introduced each line.
    Model/C38.v transcribes lib/src/annotate.rs: [FileAnnotator::compute] may be called several
    times on the same annotator ([run_phases]); every call is [process_commits] (reset of
    [num_unresolved_roots], walk of that call's graph stream with the early exit) over
    [process_commit] (per edge: the peeking split of the current line map over the matching
    hunks, the sorted merge into the parent's line map, dropping empty parents, [Err] origins
    for missing edges with the omitted parent counted once, [Ok] origins for what is left).
    The graph stream of every call and the by-line matching of every (commit, edge target)
    pair are inputs; their validity ([inputs_ok], [stream_okb]) is decidable, is a hypothesis
    of the theorems and is checked on every case. *)
From Verif Require Import Base.Prelude Base.DagR Model.C38 Proofs.C38 Proofs.C38Case Proofs.C38Strict.
Local Open Scope nat_scope.

Section Statements.
  Variable c : case.
  Hypothesis Hin : inputs_ok c = true.
  Let start := N.to_nat (c_start c).
  (** the origins after any of the [compute] calls *)
  Variable os : list origin.
  Hypothesis Hos : In os (model_origins c).

  (** The annotation has one origin per line of the starting file (and its text is the
      file). *)
  Theorem C38_text_is_file : length os = length (case_text c start).
  Proof. exact (proj1 (prop_ok_spec c _ _ (model_ok c Hin os Hos))). Qed.

  (** The blamed commit's version of the file contains the line, at the blamed number. *)
  Theorem C38_origin_contains_line : forall s o, nth_error os s = Some o ->
    exists l, nth_error (case_text c (o_commit o)) (o_line o) = Some l /\
              nth_error (case_text c start) s = Some l.
  Proof.
    intros s o H. exact (proj1 (proj2 (proj2 (prop_ok_spec c _ _ (model_ok c Hin os Hos))) s o H)).
  Qed.

  (** The blamed commit is an ancestor of the starting commit. *)
  Theorem C38_origin_is_ancestor : forall s o, nth_error os s = Some o ->
    start < length (case_graph c) /\
    exists k, reach (parents (case_graph c)) k start (o_commit o).
  Proof.
    intros s o H.
    assert (Ha := proj1 (proj2 (proj2 (proj2 (prop_ok_spec c _ _ (model_ok c Hin os Hos))) s o H))).
    unfold inputs_ok in Hin. rewrite !andb_true_iff in Hin.
    destruct Hin as [[[[Hwf Hpc] Hsm] _] _].
    apply (is_anc_spec (case_graph c)); auto.
    - now apply wf_graphb_spec.
    - now apply pc_okb_spec.
    - now apply N.leb_le.
  Qed.

  (** A resolved ([Ok]) origin is a commit of a searched graph, and its line is unmatched by
      the diff with every parent (edge target) of that commit in the searched range. *)
  Theorem C38_not_from_parent : forall s o, nth_error os s = Some o -> o_ok o = true ->
    exists nd, In nd (case_nodes c) /\ fst nd = o_commit o /\
      forall e, In e (snd nd) ->
        in_ranges (o_line o) (case_matching c (o_commit o) (fst e)) = false.
  Proof.
    intros s o H.
    exact (proj1 (proj2 (proj2 (proj2 (proj2 (prop_ok_spec c _ _ (model_ok c Hin os Hos))) s o H)))).
  Qed.
End Statements.

(** After EVERY [compute] call, an unresolved ([Err]) origin is the target of a missing edge
    of THAT call's stream — a commit OUTSIDE the range that call searched: never the
    placeholder naming the start, never a root left over from an earlier, narrower call — and
    only such commits are still pending.  Needs the streams to be closed ([stream_okb]:
    distinct nodes, missing targets are not nodes, every non-missing edge target appears
    later, every commit pending when the call starts is a node of its stream) and a non-empty
    file.  In particular a call whose stream has no missing edge (domain [all()]) leaves
    nothing unresolved and nothing pending ([C38_full_domain_resolves]).  Holds for the code
    after the repair 26901e2; see [C38_unresolved_outside_old_refuted]. *)
Theorem C38_unresolved_outside : forall c : case, stream_okb c = true ->
  0 < length (case_text c (N.to_nat (c_start c))) ->
  forall k ns st, nth_error (case_phases c) k = Some ns -> nth_error (model_states c) k = Some st ->
  (forall o, In o (st_olm st) -> o_ok o = false ->
     exists nd e, In nd ns /\ In e (snd nd) /\ is_missing e = true /\ fst e = o_commit o) /\
  (forall p, In p (map fst (st_srcs st)) ->
     exists nd e, In nd ns /\ In e (snd nd) /\ is_missing e = true /\ fst e = p).
Proof.
  intros c Hs Hpos k ns st Hk Hst.
  destruct (model_strict_ok c Hs Hpos k ns st Hk Hst) as [H1 H2].
  assert (Hmt : forall p, is_mtb ns p = true ->
            exists nd e, In nd ns /\ In e (snd nd) /\ is_missing e = true /\ fst e = p).
  { intros p H. exact (is_mt_elim ns p H). }
  split.
  - intros o Ho Hk'. unfold strict_ok in H1. rewrite forallb_forall in H1.
    specialize (H1 o Ho). rewrite Hk' in H1. cbn [orb] in H1. now apply Hmt.
  - intros p Hp. unfold pending_ok in H2. rewrite forallb_forall in H2. apply Hmt. now apply H2.
Qed.

Theorem C38_full_domain_resolves : forall c : case, stream_okb c = true ->
  0 < length (case_text c (N.to_nat (c_start c))) ->
  forall k ns st, nth_error (case_phases c) k = Some ns -> nth_error (model_states c) k = Some st ->
  (forall nd e, In nd ns -> In e (snd nd) -> is_missing e = false) ->
  (forall o, In o (st_olm st) -> o_ok o = true) /\ st_srcs st = [].
Proof.
  intros c Hs Hpos k ns st Hk Hst Hnm.
  destruct (C38_unresolved_outside c Hs Hpos k ns st Hk Hst) as [H1 H2]. split.
  - intros o Ho. destruct (o_ok o) eqn:E; auto.
    destruct (H1 o Ho E) as [nd [e [Hnd [He [Hm _]]]]]. rewrite (Hnm nd e Hnd He) in Hm. discriminate.
  - destruct (st_srcs st) as [|[p m] t]; auto.
    destruct (H2 p (or_introl eq_refl)) as [nd [e [Hnd [He [Hm _]]]]].
    rewrite (Hnm nd e Hnd He) in Hm. discriminate.
Qed.

(** All of it at once, in the form the per-case checker uses. *)
Theorem C38_model_ok : forall c : case, inputs_ok c = true -> stream_okb c = true ->
  0 < length (case_text c (N.to_nat (c_start c))) ->
  (forall os, In os (model_origins c) ->
     prop_ok c os (case_text c (N.to_nat (c_start c))) = true) /\
  (forall k ns st, nth_error (case_phases c) k = Some ns -> nth_error (model_states c) k = Some st ->
     strict_ok ns (st_olm st) = true /\ pending_ok ns (map fst (st_srcs st)) = true).
Proof. intros c H1 H2 H3. split; [now apply model_ok|now apply model_strict_ok]. Qed.

(** Meaning of the checker [okb] on the implementation's outputs: after every call the real
    [line_origins()] / [text()] satisfy the property, and the strict clause holds for the
    real origins and the real [pending_commits()] w.r.t. that call's stream. *)
Theorem C38_checker_spec : forall (c : case) k ns os pd, okb c = true ->
  nth_error (case_phases c) k = Some ns -> nth_error (case_origins c) k = Some os ->
  nth_error (case_pending c) k = Some pd ->
  prop_ok c os (lines_of (c_text c)) = true /\
  (forall o, In o os -> o_ok o = false ->
     exists nd e, In nd ns /\ In e (snd nd) /\ is_missing e = true /\ fst e = o_commit o) /\
  (forall p, In p pd ->
     exists nd e, In nd ns /\ In e (snd nd) /\ is_missing e = true /\ fst e = p).
Proof.
  intros c k ns os pd H. unfold okb in H. revert k H.
  generalize (case_phases c) (case_origins c) (case_pending c).
  induction l as [|n0 t IH]; intros [|o0 ot] [|p0 pt] k H Hn Ho Hp;
    try (destruct k; discriminate); cbn [phases_okb] in H; try discriminate.
  rewrite !andb_true_iff in H. destruct H as [[[Ha Hb] Hc] Hd].
  destruct k as [|k]; cbn in Hn, Ho, Hp.
  - inversion Hn; inversion Ho; inversion Hp; subst. split; [exact Ha|].
    assert (Hmt : forall p, is_mtb ns p = true ->
              exists nd e, In nd ns /\ In e (snd nd) /\ is_missing e = true /\ fst e = p)
      by (intros p Hq; exact (is_mt_elim ns p Hq)).
    split.
    + intros o Hin Hk. unfold strict_ok in Hb. rewrite forallb_forall in Hb.
      specialize (Hb o Hin). rewrite Hk in Hb. cbn [orb] in Hb. now apply Hmt.
    + intros p Hin. unfold pending_ok in Hc. rewrite forallb_forall in Hc. apply Hmt. now apply Hc.
  - exact (IH ot pt k Hd Hn Ho Hp).
Qed.

Theorem C38_prop_ok_spec : forall (c : case) (os : list origin) (txt : text),
  prop_ok c os txt = true ->
  length os = length (case_text c (N.to_nat (c_start c))) /\
  txt = case_text c (N.to_nat (c_start c)) /\
  forall s o, nth_error os s = Some o ->
    (exists l, nth_error (case_text c (o_commit o)) (o_line o) = Some l /\
               nth_error (case_text c (N.to_nat (c_start c))) s = Some l) /\
    is_anc (case_graph c) (o_commit o) (N.to_nat (c_start c)) = true /\
    (o_ok o = true ->
       exists nd, In nd (case_nodes c) /\ fst nd = o_commit o /\
         forall e, In e (snd nd) ->
           in_ranges (o_line o) (case_matching c (o_commit o) (fst e)) = false) /\
    (o_ok o = false ->
       o_commit o = N.to_nat (c_start c) \/
       exists nd e, In nd (case_nodes c) /\ In e (snd nd) /\ is_missing e = true /\
                    fst e = o_commit o).
Proof. exact prop_ok_spec. Qed.

(** FIXED FINDING (annotate-unresolved-root-counted-twice, /repo fix 26901e2).  Before the
    repair an omitted parent was counted in [num_unresolved_roots] once per missing edge
    reaching it ([old = true] in the model), so [process_commits] could stop while a commit
    inside the domain was still pending.  Witness (corpus case 0 of the harness): p (omitted)
    has the children q, c2 and c1 = merge(p, q); start = merge(c1, c2); domain = p..start.
    With the old counting the line "q1", introduced by q (a node of the searched graph),
    keeps the placeholder [Err (start, 1)]; with the repaired counting it is blamed on q. *)
Definition C38_witness : case :=
  mk_case [[]; [0]; [1]; [1]; [1; 2]; [4; 3]]%N
    [hex ""; hex "6c300a6c310a6c320a6c330a"; hex "6c300a71310a6c320a6c330a";
     hex "6c300a6c310a6332320a6c330a"; hex "6331300a71310a6c320a6c330a";
     hex "6331300a71310a6332320a6c330a"]
    5%N
    [[(5, [(4, 0); (3, 0)]); (4, [(1, 2); (2, 0)]); (3, [(1, 2)]); (2, [(1, 2)])]]%N
    [((5, 4), [(0, 0, 2); (3, 3, 1)]); ((5, 3), [(2, 2, 2)]); ((4, 1), [(2, 2, 2)]);
     ((4, 2), [(1, 1, 3)]); ((3, 1), [(0, 0, 2); (3, 3, 1)]); ((2, 1), [(0, 0, 1); (2, 2, 2)])]%N
    [[(true, 4, 0); (true, 2, 1); (true, 3, 2); (false, 1, 3)]]%N
    [[1]]%N
    (hex "6331300a71310a6332320a6c330a").
Theorem C38_unresolved_outside_old_refuted :
  inputs_ok C38_witness = true /\ stream_okb C38_witness = true /\
  shared_omitted_parent C38_witness = true /\
  (* before the repair: the placeholder survives, the strict clause fails *)
  (exists os, model_origins_old C38_witness = [os] /\
     nth_error os 1 = Some (mk_origin false 5 1) /\
     forallb (fun ns => strict_ok ns os) (case_phases C38_witness) = false) /\
  (* after the repair: the line is blamed on q, the whole property holds *)
  model_origins C38_witness = case_origins C38_witness /\
  okb C38_witness = true.
Proof.
  split; [vm_compute; reflexivity|]. split; [vm_compute; reflexivity|].
  split; [vm_compute; reflexivity|]. split.
  - eexists. split; [vm_compute; reflexivity|]. split; vm_compute; reflexivity.
  - split; vm_compute; reflexivity.
Qed.

(** The line-splitting of the hunks is an exact partition: the lines kept by the current
    commit are the unmatched ones, the lines handed to the parent are the matched ones,
    renumbered. *)
Theorem C38_split_partition : forall rs cur rest nc' np',
  sorted_fst cur -> asc 0 0 rs ->
  split_lines rs cur [] [] = (rest, nc', np') ->
  nc' ++ rest = filter (fun x => negb (in_ranges (fst x) rs)) cur /\
  np' = map (to_parent rs) (filter (fun x => in_ranges (fst x) rs) cur).
Proof.
  intros rs cur rest nc' np' Hs Ha H.
  exact (split_lines_spec rs cur [] [] 0 0 rest nc' np' Hs Ha (fun _ _ => Nat.le_0_l _) H).
Qed.

(** Corpus case 1 of the harness ("fork below the domain"): the omitted fork point P = 1 is
    reached through two missing edges, each handing down lines the other did not carry;
    EVERY line left in the omitted parent is marked [Err (P, its line in P)]. *)
Definition C38_fork_case : case :=
  mk_case [[]; [0]; [1]; [1]; [2; 3]]%N
    [hex ""; hex "6c300a6c310a6c320a6c330a"; hex "6c300a6c310a63305f320a63305f330a";
     hex "63315f300a63315f310a6c320a6c330a"; hex "6c300a6c310a6c320a6c330a"]
    4%N
    [[(4, [(2, 0); (3, 0)]); (3, [(1, 2)]); (2, [(1, 2)])]]%N
    [((4, 2), [(0, 0, 2)]); ((4, 3), [(2, 2, 2)]); ((3, 1), [(2, 2, 2)]); ((2, 1), [(0, 0, 2)])]%N
    [[(false, 1, 0); (false, 1, 1); (false, 1, 2); (false, 1, 3)]]%N
    [[1]]%N
    (hex "6c300a6c310a6c320a6c330a").
Example C38_fork_case_ok :
  inputs_ok C38_fork_case = true /\ stream_okb C38_fork_case = true /\
  model_origins C38_fork_case = case_origins C38_fork_case /\ okb C38_fork_case = true /\
  (* leaving the second hand-down unmarked (placeholder Err(start, _)) is rejected *)
  forallb (fun ns => strict_ok ns
    [mk_origin false 4 0; mk_origin false 4 1; mk_origin false 1 2; mk_origin false 1 3])
    (case_phases C38_fork_case) = false.
Proof. repeat split; vm_compute; reflexivity. Qed.

(** Corpus case 2 of the harness (two calls on one annotator): the same history annotated
    first within P..start (all four lines unresolved at the omitted P, P pending), then
    within all(): the second call restarts from the pending P with a fresh count and
    resolves every line (nothing unresolved, nothing pending).  A stale count from the first
    call would stop the second one at once and leave the first call's origins. *)
Definition C38_two_phase_case : case :=
  mk_case [[]; [0]; [1]; [1]; [2; 3]]%N
    [hex ""; hex "6c300a6c310a6c320a6c330a"; hex "6c300a6c310a63305f320a63305f330a";
     hex "63315f300a63315f310a6c320a6c330a"; hex "6c300a6c310a6c320a6c330a"]
    4%N
    [[(4, [(2, 0); (3, 0)]); (3, [(1, 2)]); (2, [(1, 2)])]; [(1, [(0, 2)])]]%N
    [((4, 2), [(0, 0, 2)]); ((4, 3), [(2, 2, 2)]); ((3, 1), [(2, 2, 2)]); ((2, 1), [(0, 0, 2)]);
     ((1, 0), [])]%N
    [[(false, 1, 0); (false, 1, 1); (false, 1, 2); (false, 1, 3)];
     [(true, 1, 0); (true, 1, 1); (true, 1, 2); (true, 1, 3)]]%N
    [[1]; []]%N
    (hex "6c300a6c310a6c320a6c330a").
Example C38_two_phase_ok :
  inputs_ok C38_two_phase_case = true /\ stream_okb C38_two_phase_case = true /\
  model_origins C38_two_phase_case = case_origins C38_two_phase_case /\
  okb C38_two_phase_case = true /\
  (* the first call's origins are NOT acceptable after the second call *)
  strict_ok [(1, [(0, 2)])] [mk_origin false 1 0; mk_origin false 1 1; mk_origin false 1 2;
                       mk_origin false 1 3] = false.
Proof. repeat split; vm_compute; reflexivity. Qed.

Print Assumptions C38_model_ok.
Print Assumptions C38_unresolved_outside.
Print Assumptions C38_not_from_parent.
Print Assumptions C38_checker_spec.
