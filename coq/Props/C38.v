(** C38 — Annotations blame the commit that introduced each line.
    Model/C38.v transcribes lib/src/annotate.rs: [process_commits] with its early exit,
    [process_commit] (per edge: the peeking split of the current line map over the matching
    hunks, the sorted merge into the parent's line map, dropping empty parents, [Err] origins
    for missing edges, [Ok] origins for what is left).  The graph stream of the searched
    revset and the by-line matching of every (commit, edge target) pair are inputs; their
    validity ([inputs_ok]: edges point to ancestors, hunks ascend and pair equal lines) is
    decidable, is a hypothesis of the theorems and is checked on every case. *)
From Verif Require Import Base.Prelude Base.DagR Model.C38 Proofs.C38 Proofs.C38Case Proofs.C38Strict.
Local Open Scope nat_scope.

Section Statements.
  Variable c : case.
  Hypothesis Hin : inputs_ok c = true.
  Let start := N.to_nat (c_start c).

  (** The annotation has one origin per line of the starting file (and its text is the
      file). *)
  Theorem C38_text_is_file :
    length (model_origins c) = length (case_text c start).
  Proof. exact (proj1 (prop_ok_spec c _ _ (model_ok c Hin))). Qed.

  (** The blamed commit's version of the file contains the line, at the blamed number. *)
  Theorem C38_origin_contains_line : forall s o, nth_error (model_origins c) s = Some o ->
    exists l, nth_error (case_text c (o_commit o)) (o_line o) = Some l /\
              nth_error (case_text c start) s = Some l.
  Proof.
    intros s o H. exact (proj1 (proj2 (proj2 (prop_ok_spec c _ _ (model_ok c Hin))) s o H)).
  Qed.

  (** The blamed commit is an ancestor of the starting commit. *)
  Theorem C38_origin_is_ancestor : forall s o, nth_error (model_origins c) s = Some o ->
    start < length (case_graph c) /\
    exists k, reach (parents (case_graph c)) k start (o_commit o).
  Proof.
    intros s o H.
    assert (Ha := proj1 (proj2 (proj2 (proj2 (prop_ok_spec c _ _ (model_ok c Hin))) s o H))).
    unfold inputs_ok in Hin. rewrite !andb_true_iff in Hin.
    destruct Hin as [[[[Hwf Hpc] Hsm] _] _].
    apply (is_anc_spec (case_graph c)); auto.
    - now apply wf_graphb_spec.
    - now apply pc_okb_spec.
    - now apply N.leb_le.
  Qed.

  (** A resolved ([Ok]) origin is a commit of the searched graph, and its line is unmatched
      by the diff with every parent (edge target) of that commit in the searched range. *)
  Theorem C38_not_from_parent : forall s o, nth_error (model_origins c) s = Some o ->
    o_ok o = true ->
    exists nd, In nd (case_nodes c) /\ fst nd = o_commit o /\
      forall e, In e (snd nd) ->
        in_ranges (o_line o) (case_matching c (o_commit o) (fst e)) = false.
  Proof.
    intros s o H.
    exact (proj1 (proj2 (proj2 (proj2 (proj2 (prop_ok_spec c _ _ (model_ok c Hin))) s o H)))).
  Qed.

  (** An unresolved ([Err]) origin is the target of a missing edge — a commit OUTSIDE the
      searched range (never the placeholder naming the start): when the recorded stream is
      closed ([stream_okb]: distinct nodes, missing targets are not nodes, every non-missing
      edge target appears later, the start is a node), the early exit of [process_commits]
      never leaves a commit of the domain pending.  Holds for the code after the repair
      (fix 26901e2 in /repo); see [C38_unresolved_outside_old_refuted] for the behaviour
      before it. *)
  Theorem C38_unresolved_outside : stream_okb c = true ->
    forall s o, nth_error (model_origins c) s = Some o -> o_ok o = false ->
    exists nd e, In nd (case_nodes c) /\ In e (snd nd) /\ is_missing e = true /\
                 fst e = o_commit o.
  Proof.
    intros Hs s o H Hk. assert (Hst := model_strict_ok c Hs).
    unfold strict_ok in Hst. rewrite forallb_forall in Hst.
    specialize (Hst o (nth_error_In _ _ H)). rewrite Hk in Hst. cbn [orb] in Hst.
    apply existsb_exists in Hst. destruct Hst as [nd [Hnd He]].
    apply existsb_exists in He. destruct He as [e [He Hm]]. apply andb_true_iff in Hm.
    destruct Hm as [Hm Hf]. apply Nat.eqb_eq in Hf. exists nd, e. auto.
  Qed.
End Statements.

(** All of the above at once, in the form the per-case checker uses. *)
Theorem C38_model_ok : forall c : case, inputs_ok c = true -> stream_okb c = true ->
  prop_ok c (model_origins c) (case_text c (N.to_nat (c_start c))) = true /\
  strict_ok c (model_origins c) = true.
Proof. intros c H1 H2. split; [now apply model_ok|now apply model_strict_ok]. Qed.

(** Meaning of the checker [okb] on the implementation's [line_origins()] / [text()]
    ([okb] additionally requires [strict_ok]: no unresolved origin names the start). *)
Theorem C38_checker_spec : forall c : case, okb c = true ->
  length (case_origins c) = length (case_text c (N.to_nat (c_start c))) /\
  lines_of (c_text c) = case_text c (N.to_nat (c_start c)) /\
  forall s o, nth_error (case_origins c) s = Some o ->
    (exists l, nth_error (case_text c (o_commit o)) (o_line o) = Some l /\
               nth_error (case_text c (N.to_nat (c_start c))) s = Some l) /\
    is_anc (case_graph c) (o_commit o) (N.to_nat (c_start c)) = true /\
    (o_ok o = true ->
       exists nd, In nd (case_nodes c) /\ fst nd = o_commit o /\
         forall e, In e (snd nd) ->
           in_ranges (o_line o) (case_matching c (o_commit o) (fst e)) = false) /\
    (o_ok o = false ->
       o_commit o = N.to_nat (c_start c) \/
       exists nd e, In nd (case_nodes c) /\ In e (snd nd) /\ is_missing e = true /\
                    fst e = o_commit o).
Proof.
  intros c H. unfold okb in H. apply andb_true_iff in H. exact (prop_ok_spec c _ _ (proj1 H)).
Qed.

Theorem C38_checker_strict : forall c : case, okb c = true ->
  forall o, In o (case_origins c) -> o_ok o = false ->
  exists nd e, In nd (case_nodes c) /\ In e (snd nd) /\ is_missing e = true /\
               fst e = o_commit o.
Proof.
  intros c H o Hin Hk. unfold okb in H. apply andb_true_iff in H. destruct H as [_ H].
  unfold strict_ok in H. rewrite forallb_forall in H. specialize (H o Hin).
  rewrite Hk in H. cbn [orb] in H.
  apply existsb_exists in H. destruct H as [nd [Hnd He]].
  apply existsb_exists in He. destruct He as [e [He Hm]]. apply andb_true_iff in Hm.
  destruct Hm as [Hm Hf]. apply Nat.eqb_eq in Hf. exists nd, e. auto.
Qed.

(** FIXED FINDING (annotate-unresolved-root-counted-twice, /repo fix 26901e2).  Before the
    repair an omitted parent was counted in [num_unresolved_roots] once per missing edge
    reaching it ([old = true] in the model), so [process_commits] could stop while a commit
    inside the domain was still pending.  Witness (recorded from the real [FileAnnotator]
    before the repair; also corpus case 0 of the harness): p (omitted) has the children q, c2
    and c1 = merge(p, q); start = merge(c1, c2); domain = p..start.  With the old counting
    the line "q1", introduced by q (a node of the searched graph), keeps the placeholder
    [Err (start, 1)]; with the repaired counting it is blamed on q. *)
Definition C38_witness : case :=
  mk_case [[]; [0]; [1]; [1]; [1; 2]; [4; 3]]%N
    [hex ""; hex "6c300a6c310a6c320a6c330a"; hex "6c300a71310a6c320a6c330a";
     hex "6c300a6c310a6332320a6c330a"; hex "6331300a71310a6c320a6c330a";
     hex "6331300a71310a6332320a6c330a"]
    5%N
    [(5, [(4, 0); (3, 0)]); (4, [(1, 2); (2, 0)]); (3, [(1, 2)]); (2, [(1, 2)])]%N
    [((5, 4), [(0, 0, 2); (3, 3, 1)]); ((5, 3), [(2, 2, 2)]); ((4, 1), [(2, 2, 2)]);
     ((4, 2), [(1, 1, 3)]); ((3, 1), [(0, 0, 2); (3, 3, 1)]); ((2, 1), [(0, 0, 1); (2, 2, 2)])]%N
    [(true, 4, 0); (true, 2, 1); (true, 3, 2); (false, 1, 3)]%N
    (hex "6331300a71310a6332320a6c330a").
Theorem C38_unresolved_outside_old_refuted :
  inputs_ok C38_witness = true /\ stream_okb C38_witness = true /\
  shared_omitted_parent C38_witness = true /\
  (* before the repair: the placeholder survives, the strict clause fails *)
  nth_error (model_origins_old C38_witness) 1 = Some (mk_origin false 5 1) /\
  strict_ok C38_witness (model_origins_old C38_witness) = false /\
  (* after the repair: the line is blamed on q, the whole property holds *)
  nth_error (model_origins C38_witness) 1 = Some (mk_origin true 2 1) /\
  model_origins C38_witness = case_origins C38_witness /\
  okb C38_witness = true.
Proof. repeat split; vm_compute; reflexivity. Qed.

(** The line-splitting of the hunks is an exact partition: the lines kept by the current
    commit are the unmatched ones, the lines handed to the parent are the matched ones,
    renumbered. *)
Theorem C38_split_partition : forall rs cur rest nc' np',
  sorted_fst cur -> asc 0 0 rs ->
  split_lines rs cur [] [] = (rest, nc', np') ->
  nc' ++ rest = filter (fun x => negb (in_ranges (fst x) rs)) cur /\
  np' = map (to_parent rs) (filter (fun x => in_ranges (fst x) rs) cur).
Proof.
  intros rs cur rest nc' np' Hs Ha H.
  exact (split_lines_spec rs cur [] [] 0 0 rest nc' np' Hs Ha (fun _ _ => Nat.le_0_l _) H).
Qed.

(** Non-vacuity: a merge history where the start is a merge of two edited branches. *)
Definition C38_ex : case :=
  mk_case [[]; [0]; [1]; [1]; [2; 3]]%N
          [hex ""; hex "610a620a"; hex "610a780a620a"; hex "610a620a790a"; hex "610a780a620a790a"]
          4%N
          [(4, [(2, 0); (3, 0)]); (3, [(1, 0)]); (2, [(1, 0)]); (1, [(0, 2)])]%N
          [((4, 2), [(0, 0, 3)]); ((4, 3), [(0, 0, 1); (2, 1, 2)]); ((3, 1), [(0, 0, 2)]);
           ((2, 1), [(0, 0, 1); (2, 1, 1)]); ((1, 0), [])]%N
          [(true, 1, 0); (true, 2, 1); (true, 1, 1); (true, 3, 2)]%N
          (hex "610a780a620a790a").
Example C38_nonvacuous :
  inputs_ok C38_ex = true /\ okb C38_ex = true /\
  model_origins C38_ex = case_origins C38_ex.
Proof. repeat split; vm_compute; reflexivity. Qed.

(** Corpus case 1 of the harness ("fork below the domain"): the omitted fork point P = 1 is
    reached through two missing edges, from c2 = 3 (handing down lines 2, 3) and then from
    c1 = 2 (handing down lines 0, 1, which the first child did not carry).  EVERY line left
    in the omitted parent is marked [Err (P, its line in P)], also on the second visit. *)
Definition C38_fork_case : case :=
  mk_case [[]; [0]; [1]; [1]; [2; 3]]%N
    [hex ""; hex "6c300a6c310a6c320a6c330a"; hex "6c300a6c310a63305f320a63305f330a";
     hex "63315f300a63315f310a6c320a6c330a"; hex "6c300a6c310a6c320a6c330a"]
    4%N
    [(4, [(2, 0); (3, 0)]); (3, [(1, 2)]); (2, [(1, 2)])]%N
    [((4, 2), [(0, 0, 2)]); ((4, 3), [(2, 2, 2)]); ((3, 1), [(2, 2, 2)]); ((2, 1), [(0, 0, 2)])]%N
    [(false, 1, 0); (false, 1, 1); (false, 1, 2); (false, 1, 3)]%N
    (hex "6c300a6c310a6c320a6c330a").
Example C38_fork_case_ok :
  inputs_ok C38_fork_case = true /\ stream_okb C38_fork_case = true /\
  model_origins C38_fork_case = case_origins C38_fork_case /\ okb C38_fork_case = true /\
  (* leaving the second hand-down unmarked (placeholder Err(start, _)) is rejected *)
  strict_ok C38_fork_case
    [mk_origin false 4 0; mk_origin false 4 1; mk_origin false 1 2; mk_origin false 1 3] = false.
Proof. repeat split; vm_compute; reflexivity. Qed.

Print Assumptions C38_model_ok.
Print Assumptions C38_unresolved_outside.
Print Assumptions C38_not_from_parent.
Print Assumptions C38_checker_spec.
