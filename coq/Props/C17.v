(** C17 — Commit backends return on read exactly what write reported (P-part).
    Model/C17.v transcribes the codecs jj owns in lib/src/git_backend.rs (signatures, extra
    headers, extras, the collision loop, root-parent elision, write_commit / read_commit as
    of the repaired tree, i.e. with commit 7b9f28d) and lib/src/simple_backend.rs.
    Outside the model (oracles, tied by correspondence only): gix's serialisation / parsing
    of the Git commit object and SHA-1 — a Git commit object is its field record and stands
    for its own id —, the prost wire format and BLAKE2b of the simple backend.
    Guards, all named: [git_domainb] = Commit's documented invariants (odd arities; resolved
    labels are the empty string) and a non-empty change id; [trees_wfb] = tree-id bytes are
    bytes; [names_okb] = no author/committer name or e-mail is the placeholder literal (F2)
    or has leading/trailing Unicode whitespace (F6) — both classes are refuted below. *)
From Verif Require Import Base.Prelude Base.C16Lib Gen.Tables Model.C17 Proofs.C16Lib Proofs.C17.
Local Open Scope N_scope.

(** Git backend: whatever write accepts and returns is what read gives for that id, in
    the state right after the write, for every prior table [t] (any history of writes,
    including colliding ones) and every id byte string [id]. *)
Theorem C17_read_write_git : forall root t c gc c' t' id,
  write root t c = (WOk gc c', t') ->
  git_domainb c = true -> trees_wfb c = true -> names_okb c = true ->
  read root t' gc id = ROk c'.
Proof. exact git_read_write. Qed.

(** ... and after any number of further writes. *)
Theorem C17_read_stable_git : forall root t c gc c' t1 t2 id,
  write root t c = (WOk gc c', t1) -> later root t1 t2 ->
  git_domainb c = true -> trees_wfb c = true -> names_okb c = true ->
  read root t2 gc id = ROk c'.
Proof. exact git_read_stable. Qed.

(** Two writes, at any distance, that report the same id reported the same commit; and the
    id is a function of the reported commit. *)
Theorem C17_same_id_same_commit_git : forall root t c1 gc c1' t1 t2 c2 c2' t3,
  write root t c1 = (WOk gc c1', t1) -> later root t1 t2 ->
  write root t2 c2 = (WOk gc c2', t3) ->
  git_domainb c1 = true -> trees_wfb c1 = true -> names_okb c1 = true ->
  git_domainb c2 = true -> trees_wfb c2 = true -> names_okb c2 = true ->
  c1' = c2'.
Proof. exact git_same_id_same_commit. Qed.

Theorem C17_id_of_returned_git : forall root t c gc c' t',
  write root t c = (WOk gc c', t') -> gc = to_git root c'.
Proof. exact git_id_of_returned. Qed.

(** Commits that differ in a recorded field (i.e. after reduction to second precision) have
    different encodings — Git commit fields plus extras, the part jj owns. That gix's
    serialisation and SHA-1 keep them apart is the oracle assumption. *)
Theorem C17_distinct_encodings : forall root c1 c2,
  acceptedb root c1 = true -> git_domainb c1 = true -> trees_wfb c1 = true -> names_okb c1 = true ->
  acceptedb root c2 = true -> git_domainb c2 = true -> trees_wfb c2 = true -> names_okb c2 = true ->
  normalize c1 <> normalize c2 -> encoding root c1 <> encoding root c2.
Proof. exact distinct_encodings. Qed.

(** The committer-timestamp decrement loop always ends within [length t + 1] rounds. *)
Theorem C17_collision_loop_terminates : forall t gc secs e,
  exists s, find_free (S (length t)) t gc secs e = Some s.
Proof. exact collision_loop_terminates. Qed.

(** Simple backend: proto round-trip, and the hashed encoding (= the id's preimage) is
    injective on all fields including sub-second timestamps. *)
Theorem C17_read_write_simple : forall c,
  simple_domainb c = true -> commit_from_proto (commit_to_proto c) = ROk c.
Proof. exact simple_read_write. Qed.

Theorem C17_enc_injective_simple : forall c1 c2,
  commit_enc_wfb c1 = true -> commit_enc_wfb c2 = true -> enc_commit c1 = enc_commit c2 -> c1 = c2.
Proof. exact commit_enc_injective. Qed.

(** F1 — the code before 7b9f28d ([write_old]) violated read = returned on a sub-second
    author timestamp; the repaired code does not. *)
Theorem C17_author_ms_old_refuted :
  exists c gc c' t', write_old w_root [] c = (WOk gc c', t')
                     /\ git_domainb c = true /\ trees_wfb c = true /\ names_okb c = true
                     /\ read w_root t' gc [] <> ROk c'.
Proof. exact author_ms_old_refuted. Qed.

(** F2 (known finding) — "" and the placeholder literal: same encoding although the commits
    differ, and the second reads back with an empty name. *)
Theorem C17_placeholder_collision_refuted :
  exists c1 c2,
    acceptedb w_root c1 = true /\ acceptedb w_root c2 = true
    /\ git_domainb c1 = true /\ git_domainb c2 = true
    /\ normalize c1 <> normalize c2
    /\ encoding w_root c1 = encoding w_root c2
    /\ (exists gc c' t', write w_root [] c2 = (WOk gc c', t') /\ read w_root t' gc [] <> ROk c').
Proof. exact placeholder_collision_refuted. Qed.

(** F6 (new finding) — a name with leading/trailing whitespace is accepted, returned as is,
    and read back trimmed. *)
Theorem C17_padded_name_refuted :
  exists c gc c' t', write w_root [] c = (WOk gc c', t')
                     /\ git_domainb c = true /\ placeholder_nameb c = false
                     /\ read w_root t' gc [] <> ROk c'.
Proof. exact padded_name_refuted. Qed.

(** The checker decides [case_ok]; a failing case is demoted to a known finding only if one
    of its steps lies in class F2 or F6 (Git backend). *)
Theorem C17_okb_spec : forall c : case, okb c = true <-> case_ok c.
Proof. exact okb_spec. Qed.

Theorem C17_known_sound : forall c : case,
  known c = true ->
  k_git c = true /\ okb c = false /\ exists s, In s (k_steps c) /\ known_classb (st_in s) = true.
Proof. exact known_sound. Qed.

Check C17_read_write_git : forall root t c gc c' t' id,
  write root t c = (WOk gc c', t') ->
  git_domainb c = true -> trees_wfb c = true -> names_okb c = true ->
  read root t' gc id = ROk c'.
Check C17_distinct_encodings : forall root c1 c2,
  acceptedb root c1 = true -> git_domainb c1 = true -> trees_wfb c1 = true -> names_okb c1 = true ->
  acceptedb root c2 = true -> git_domainb c2 = true -> trees_wfb c2 = true -> names_okb c2 = true ->
  normalize c1 <> normalize c2 -> encoding root c1 <> encoding root c2.
Check C17_read_write_simple : forall c,
  simple_domainb c = true -> commit_from_proto (commit_to_proto c) = ROk c.

(** The ContentHash field order of Commit / Signature as scraped (the final "parents" is
    the field of another struct further down in backend.rs). *)
Example C17_field_order :
  C17_COMMIT_FIELDS = ["parents"; "predecessors"; "root_tree"; "conflict_labels"; "change_id";
                       "description"; "author"; "committer"; "secure_sig"; "parents"]%string
  /\ C17_SIGNATURE_FIELDS = ["name"; "email"; "timestamp"]%string.
Proof. repeat split. Qed.

(** A merge commit with a conflicted root tree, labels, an empty e-mail, a negative
    sub-second timestamp and a collision with an earlier write satisfies the hypotheses:
    the second write moves the committer one second back and both read back. *)
Example C17_nonvacuous :
  let t1 := repeat 1 20 in let t2 := repeat 2 20 in
  let c := mk_commit [repeat 5 20; repeat 6 20] [] [t1; t2; t1] [[97]; []; [98; 32; 99]]
                     (repeat 9 16) [109; 10]
                     (mk_sig [195; 137] [] (-1001) (-330)) (mk_sig [65] [97] 5999 60) in
  let c2 := mk_commit (c_parents c) [repeat 3 20] (c_root_tree c) (c_labels c) (c_change_id c)
                      (c_description c) (c_author c) (c_committer c) in
  git_domainb c = true /\ trees_wfb c = true /\ names_okb c = true /\ git_domainb c2 = true
  /\ exists gc c' t' gc2 c2' t'',
       write w_root [] c = (WOk gc c', t') /\ write w_root t' c2 = (WOk gc2 c2', t'')
       /\ s_millis (c_author c') = (-2000)%Z /\ s_millis (c_committer c') = 5000%Z
       /\ s_millis (c_committer c2') = 4000%Z
       /\ read w_root t'' gc [] = ROk c' /\ read w_root t'' gc2 [] = ROk c2'.
Proof.
  cbv zeta. repeat split; try (vm_compute; reflexivity).
  do 6 eexists. split; [vm_compute; reflexivity|]. split; [vm_compute; reflexivity|].
  repeat split; vm_compute; reflexivity.
Qed.

Print Assumptions C17_read_write_git.
Print Assumptions C17_same_id_same_commit_git.
Print Assumptions C17_distinct_encodings.
Print Assumptions C17_read_write_simple.
Print Assumptions C17_okb_spec.
