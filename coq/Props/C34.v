(** C34 — Git import and export converge without dropping updates.
    Model: Model/C34.v (lib/src/git.rs import_refs / export_refs, lib/src/refs.rs
    merge_ref_targets, lib/src/view.rs setters).  [anc] is [Index::is_ancestor], an oracle:
    every theorem holds for every ancestry relation.  Views and Git states are arbitrary
    (any history leads to some view and some Git state); the only hypothesis is that the Git
    side is a map (no branch name listed twice). *)
From Verif Require Import Base.Prelude Gen.Tables Model.Merge Model.C34 Proofs.C34.
Local Open Scope N_scope.

Section Statements.
  Context (anc : N -> N -> bool).

  (** import; export; import.  After import then export, for every bookmark name: unless the
      export reported a failure for it (only possible for a bookmark on the root commit,
      which Git cannot hold) a non-conflicted local bookmark and the Git branch are equal
      (both absent, or the same commit); a conflicted bookmark leaves the Git branch as it
      was and is not reported; export does not touch local bookmarks; and a second import
      changes nothing in the view (local bookmarks, @git bookmarks, recorded Git refs). *)
  Theorem C34_converge : forall (s : view) (g : gmap), NoDup (keys g) ->
    let s1 := import_refs anc s g in
    let '(s2, g2, failed) := export_refs s1 g in
    let s3 := import_refs anc s2 g2 in
    (forall n, ~ In n (failed_names failed) -> has_conflict (get (local s1) n) = false ->
               resolved (gget g2 n) = get (local s1) n)
    /\ (forall n x, In (n, x) failed ->
                    x = OnRootCommit /\ get (local s1) n = resolved root_id /\ gget g2 n = gget g n)
    /\ (forall n, has_conflict (get (local s1) n) = true ->
                  gget g2 n = gget g n /\ ~ In n (failed_names failed))
    /\ local s2 = local s1
    /\ (forall n, get (local s3) n = get (local s2) n /\ get (rgit s3) n = get (rgit s2) n
                  /\ get (grefs s3) n = get (grefs s2) n).
  Proof. exact (converge anc). Qed.

  (** The same after ANY history of jj-side edits (local bookmark, @git bookmark, recorded
      Git ref), Git-side branch edits, imports and exports, starting from the empty repo. *)
  Theorem C34_converge_after_any_history : forall (steps : list step),
    let '(s, g) := run anc steps in
    let s1 := import_refs anc s g in
    let '(s2, g2, failed) := export_refs s1 g in
    let s3 := import_refs anc s2 g2 in
    (forall n, ~ In n (failed_names failed) -> has_conflict (get (local s1) n) = false ->
               resolved (gget g2 n) = get (local s1) n)
    /\ (forall n x, In (n, x) failed -> x = OnRootCommit /\ get (local s1) n = resolved root_id)
    /\ (forall n, get (local s3) n = get (local s2) n /\ get (rgit s3) n = get (rgit s2) n
                  /\ get (grefs s3) n = get (grefs s2) n).
  Proof. exact (converge_after_any_history anc). Qed.

  (** The second import is the identity on the view literally (the same maps), provided the
      recorded Git refs carry no explicit absent entry (View::set_git_ref_target never stores
      one); this holds after every history. *)
  Theorem C34_second_import_identity : forall (s : view) (g : gmap),
    NoDup (keys g) -> wf_map (grefs s) ->
    let s1 := import_refs anc s g in
    let '(s2, g2, _) := export_refs s1 g in
    import_refs anc s2 g2 = s2.
  Proof. exact (second_import_is_identity anc). Qed.

  Theorem C34_second_import_identity_after_any_history : forall (steps : list step),
    let '(s, g) := run anc steps in
    let s1 := import_refs anc s g in
    let '(s2, g2, _) := export_refs s1 g in
    import_refs anc s2 g2 = s2.
  Proof. exact (second_import_is_identity_after_any_history anc). Qed.

  (** A change made on one side only reaches the other side.
      Git side only (the local bookmark still equals the @git bookmark): the import moves the
      local bookmark to Git's value.  jj side only (Git's branch still equals the @git
      bookmark): the import keeps the local bookmark and the export makes the Git branch
      equal to it (unless it is conflicted or on the root commit). *)
  Theorem C34_one_sided_propagates : forall (s : view) (g : gmap) (n : N), NoDup (keys g) ->
    (get (local s) n = get (rgit s) n ->
       get (local (import_refs anc s g)) n = resolved (gget g n))
    /\ (resolved (gget g n) = get (rgit s) n ->
        get (local (import_refs anc s g)) n = get (local s) n
        /\ (has_conflict (get (local s) n) = false -> get (local s) n <> resolved root_id ->
            let '(s2, g2, failed) := export_refs (import_refs anc s g) g in
            resolved (gget g2 n) = get (local s) n /\ get (local s2) n = get (local s) n
            /\ get (rgit s2) n = get (local s) n /\ ~ In n (failed_names failed))).
  Proof. exact (one_sided_propagates anc). Qed.

  (** Both sides changed a (resolved) bookmark to different values [a] (jj) and [c] (Git) from
      the common base [b]: unless the ancestry rule applies (one new value is an ancestor of the
      other and the base is absent or an ancestor of the older one — then the descendant wins),
      the bookmark becomes the conflict [a - b + c], which mentions both new values; the
      following export leaves the Git branch at [c], reports no failure, and keeps the conflict. *)
  Theorem C34_conflict_not_overwrite : forall (s : view) (g : gmap) (n a b : N),
    NoDup (keys g) ->
    get (local s) n = [a] -> get (rgit s) n = [b] ->
    a <> b -> b <> gget g n -> a <> gget g n ->
    let c := gget g n in
    let s1 := import_refs anc s g in
    let '(s2, g2, failed) := export_refs s1 g in
    match ff_resolves anc a b c with
    | None =>
        get (local s1) n = [a; b; c] /\ get (local s2) n = [a; b; c]
        /\ gget g2 n = c /\ ~ In n (failed_names failed) /\ get (rgit s2) n = resolved c
    | Some d =>
        get (local s1) n = [d] /\ ((d = c /\ anc a c = true) \/ (d = a /\ anc c a = true))
    end.
  Proof. exact (conflict_not_overwrite anc). Qed.

  (** Export is a per-ref compare-and-swap, for ANY view and ANY Git state (in particular
      when Git was edited after the last import): a Git branch changes only if its current
      value is the one recorded in git_refs, and then to the local bookmark; a reported
      failure leaves the branch, git_refs and the @git bookmark untouched; a conflicted
      bookmark is never exported; local bookmarks are never touched. *)
  Theorem C34_export_never_overwrites : forall (s : view) (g : gmap) (n : N),
    let '(s2, g2, failed) := export_refs s g in
    local s2 = local s
    /\ (gget g2 n <> gget g n ->
          get (grefs s) n = resolved (gget g n) /\ resolved (gget g2 n) = get (local s) n
          /\ ~ In n (failed_names failed) /\ get (grefs s2) n = get (local s) n)
    /\ (In n (failed_names failed) ->
          gget g2 n = gget g n /\ get (grefs s2) n = get (grefs s) n
          /\ get (rgit s2) n = get (rgit s) n)
    /\ (has_conflict (get (local s) n) = true ->
          gget g2 n = gget g n /\ (forall x, In (n, x) failed -> x = ConflictedOldState)
          /\ get (grefs s2) n = get (grefs s) n /\ get (rgit s2) n = get (rgit s) n)
    /\ (~ In n (failed_names failed) -> has_conflict (get (local s) n) = false ->
          get (rgit s2) n = get (local s) n).
  Proof. exact export_cas. Qed.

  (** What one import does to every name (the complete per-name characterisation), and it
      never writes to Git (the Git state is an input only). *)
  Theorem C34_import_spec : forall (s : view) (g : gmap) (n : N), NoDup (keys g) ->
    let s' := import_refs anc s g in
    let gt := resolved (gget g n) in
    get (grefs s') n = gt
    /\ get (rgit s') n = gt
    /\ get (local s') n =
       (if teqb gt (get (rgit s) n) then get (local s) n
        else merge_targets anc (get (local s) n) (get (rgit s) n) gt).
  Proof. exact (import_spec anc). Qed.

  (** The ancestry-based conflict reduction loop always reaches its exit condition with the
      fuel the model gives it (termination of merge_ref_targets_non_trivial). *)
  Theorem C34_merge_loop_terminates : forall (m : target),
    find_pair_to_remove anc (nontrivial anc (length m) m) = None.
  Proof. exact (merge_loop_terminates anc). Qed.

  (** Meaning of the checker that is run on the implementation's observed states. *)
  Theorem C34_checker_meaning : forall (names : list N) (steps : list step),
    steps_ok anc names steps = true <-> StepsOk anc names steps.
  Proof. exact (steps_ok_spec anc). Qed.
End Statements.

(** Whenever the implementation's observed states agree with the model along a history
    (the correspondence check), the observed states satisfy the property checker. *)
Theorem C34_agreement_implies_property : forall (c : case),
  c_flags_ok c = true ->
  replay (ancb (c_graph c)) (c_names c) (c_steps c) empty_view [] = true ->
  okb c = true.
Proof. exact corr_implies_okb. Qed.

(** Source anchors the model transcribes (scraped on every run by tools/gen_tables.py): the
    two [SameChange::Accept] arguments in merge_ref_targets and the two gix constraints that
    make create/move a compare-and-swap each occur exactly once. *)
Example C34_source_anchors :
  (Tables.C34_MERGE_REFS_ACCEPT, Tables.C34_RESOLVE_TRIVIAL_ACCEPT,
   Tables.C34_CREATE_MUST_NOT_EXIST, Tables.C34_MOVE_MUST_MATCH_OLD) = (1, 1, 1, 1).
Proof. reflexivity. Qed.

Check C34_converge.
Check C34_one_sided_propagates.
Check C34_conflict_not_overwrite.

(** Non-vacuity on a concrete state. Commits: 2 <- 3, and 4 unrelated. All of names 1-3 were
    last synced at commit 2. Name 1: moved to 3 in jj only (exported). Name 2: moved to 3 in jj
    and to 4 in Git (conflict, Git keeps 4). Name 3: moved to 3 in Git only (imported).
    Name 4: a jj bookmark on the root commit (reported failure). Name 5: new in Git. *)
Example C34_nonvacuous :
  let anc := ancb [(2, [1]); (3, [2]); (4, [1])] in
  let s0 := mk_view [(1, [2]); (2, [2]); (3, [2]); (4, [1])] [(1, [2]); (2, [2]); (3, [2])]
                    [(1, [2]); (2, [2]); (3, [2])] in
  let g0 : gmap := [(1, 2); (2, 4); (3, 3); (5, 4)] in
  let s := mk_view [(1, [3]); (2, [3]); (3, [2]); (4, [1])] (rgit s0) (grefs s0) in
  let s1 := import_refs anc s g0 in
  let '(s2, g2, failed) := export_refs s1 g0 in
  get (local s1) 1 = [3] /\ get (local s1) 2 = [3; 2; 4] /\ get (local s1) 3 = [3]
  /\ get (local s1) 5 = [4]
  /\ gget g2 1 = 3 /\ gget g2 2 = 4 /\ gget g2 3 = 3 /\ gget g2 5 = 4
  /\ failed = [(4, OnRootCommit)]
  /\ import_refs anc s2 g2 = s2.
Proof. vm_compute. repeat split. Qed.

Print Assumptions C34_converge.
Print Assumptions C34_converge_after_any_history.
Print Assumptions C34_second_import_identity_after_any_history.
Print Assumptions C34_one_sided_propagates.
Print Assumptions C34_conflict_not_overwrite.
Print Assumptions C34_export_never_overwrites.
Print Assumptions C34_agreement_implies_property.
