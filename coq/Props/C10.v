(** C10 — Visible heads are normalized and cover everything referenced.
    Model: Model/RepoV.v (lib/src/view.rs, lib/src/repo.rs, lib/src/transaction.rs). *)
From Verif Require Import Base.Prelude Base.DagV Model.Merge Model.RepoV Model.C10 Proofs.C10 Proofs.C10Rebase Proofs.C10Guard.

(** The checker evaluated on the implementation's committed views means exactly the invariant:
    the heads are a non-empty antichain of the commit graph, the root commit is a head only if it
    is the only one, every commit added by a local bookmark target (each side of a conflict) and
    every working-copy commit is an ancestor of some head. *)
Theorem C10_okb_spec : forall c : case,
  okb c = true <->
  wf_dag (pg (k_graph c)) /\
  forall v, In v (k_views c) ->
    (v_heads v <> [] /\ antichain (pg (k_graph c)) (v_heads v) /\ (In 0 (v_heads v) -> v_heads v = [0]))
    /\ (forall name t x, In (name, t) (v_bms v) -> In x (added_ids t) -> covered (pg (k_graph c)) (v_heads v) x)
    /\ (forall ws x, In (ws, x) (v_wcs v) -> covered (pg (k_graph c)) (v_heads v) x).
Proof. exact okb_spec. Qed.

(** For every state reachable from the empty repository by any sequence of commit creation
    (CommitBuilder::write), add_heads (both paths), set_local_bookmark_target (any target,
    conflicted or absent), edit, check_out, remove_workspace (with the implicit abandoning of a
    discardable working-copy commit) and commits, the view written by Transaction::commit
    satisfies the invariant. Guard: the ids an operation names exist. *)
Theorem C10_commit_inv_partial : forall s s' : state,
  reach_basic s -> step s OCommit = Ok s' -> Inv (pg (s_g s')) (s_v s').
Proof. exact commit_inv_basic. Qed.

(** ALL modelled operations, including rewrite_commit / abandon / divergent records and
    rebase_descendants (any options, immutable set, tree oracle): for every state reachable from
    the empty repository, the view written by Transaction::commit satisfies the invariant. The only
    guards ([op_okb2]): the ids an operation names exist and bookmark targets have odd arity (what
    Merge::from_vec asserts). *)
Theorem C10_commit_inv : forall s s' : state,
  reach_all2 s -> step s OCommit = Ok s' -> Inv (pg (s_g s')) (s_v s').
Proof. exact commit_inv_all2. Qed.

(** The fact behind the rebase step: after update_local_bookmarks and update_wc_commits no bookmark
    adds and no workspace sits on a commit that still has a rewrite record - for every bookmark
    shape (conflicted, the same commit added several times: one merge per occurrence removes one
    occurrence), every ordering function, every record set. *)
Theorem C10_refs_clear_after : forall ord s o sB,
  J s -> bms_odd s -> names_sorted s ->
  rebase_before_heads ord s o = Ok sB ->
  (forall name t c, In (name, t) (v_bms (s_v sB)) -> In c (added_ids t) -> pm_get (s_pm sB) c = None) /\
  (forall ws c, In (ws, c) (v_wcs (s_v sB)) -> pm_get (s_pm sB) c = None).
Proof. intros ord s o sB Js Os Ns H. exact (proj1 (refs_clear_after ord s o sB Js Os Ns H)). Qed.

(** The incremental head update of MutableRepo::add_heads: if [h] has parents and every parent of
    [h] is a head of a normalized head set (exactly the guard of the code), inserting [h] and
    removing its parents gives exactly what View::normalize_heads computes from the set with [h]
    added. *)
Theorem C10_fast_path : forall (g : dag) (hs : list nat) (h : nat),
  wf_dag g -> sorted hs ->
  hs <> [] /\ antichain g hs /\ (In 0 hs -> hs = [0]) ->
  parents g h <> [] ->
  (forall p, In p (parents g h) -> In p hs) ->
  fold_left (fun hs p => remn p hs) (parents g h) (ins h hs) = heads_of g (remn 0 (ins h hs)).
Proof. exact fast_path. Qed.

(** The guard [parents g h <> []] is needed. The code before the repair 3daac52 of /repo did not
    have it ([add_heads_old]): for the root commit the condition "all parents are heads" holds
    vacuously, the incremental path inserted the root next to the other heads and left
    head_normalized set, so that the committed view violated the invariant. Witness: the state
    after new([root]); commit, then add_heads([root]) with the old guard. (Corpus case 0 of the
    harness replays it on the implementation: it passes now and fails if the repair is reverted.) *)
Definition root_witness_prefix : list op := [ONew [0] 1 false; OCommit].
Theorem C10_root_fast_path_old_refuted :
  exists s, run_prefix init_state root_witness_prefix 2 = Ok s /\
    let s' := add_heads_old s [0] in
    v_norm (s_v s') = true /\ inv_b (pg (s_g s')) (s_v s') = false /\
    (* the current guard normalizes instead *)
    inv_b (pg (s_g s)) (s_v (normalize (add_heads s [0]))) = true.
Proof. eexists. split; [vm_compute; reflexivity|]. vm_compute. auto. Qed.

(** The full statement: all modelled operations, including rewrite / abandon records and
    descendant rebasing (Model/RepoV.v [rebase_descendants]). *)
Definition C10_full : Prop :=
  forall ops s vs, run init_state ops [] = (Ok s, vs) ->
    forall v, In v vs -> Inv (pg (s_g s)) v.

Check C10_okb_spec : forall c : case, okb c = true <-> _.
Check C10_commit_inv_partial : forall s s' : state,
  reach_basic s -> step s OCommit = Ok s' -> Inv (pg (s_g s')) (s_v s').
Check C10_commit_inv : forall s s' : state,
  reach_all2 s -> step s OCommit = Ok s' -> Inv (pg (s_g s')) (s_v s').

Example C10_nonvacuous :
  exists s, reach_basic s /\ exists s', step s OCommit = Ok s' /\ length (s_g s') = 3 /\
    v_heads (s_v s') = [2] /\ v_wcs (s_v s') = [(1%N, 2)].
Proof.
  eexists. split.
  - apply (run_guarded_reach [ONew [0] 1 false; OCheckOut 1 1] init_state); [apply rb_init|].
    vm_compute. reflexivity.
  - eexists. split; [vm_compute; reflexivity|]. vm_compute. auto.
Qed.

Print Assumptions C10_okb_spec.
Print Assumptions C10_commit_inv_partial.
Print Assumptions C10_commit_inv.
Print Assumptions C10_refs_clear_after.
Print Assumptions C10_fast_path.
Print Assumptions C10_root_fast_path_old_refuted.
