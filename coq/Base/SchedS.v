(** Schedules of atomic steps (used by C14, C21, C15). Definitions only; the lemmas live in
    Proofs/SchedS.v.

    A system is a state type [S], a type of scheduling events [E] (an event names the
    process that moves next and carries whatever the environment chooses for that step)
    and a total step function.  A schedule is a list of events of ANY length over ANY
    number of processes; a crash of a process is a schedule in which that process is
    never named again. *)
From Coq Require Import List.
Import ListNotations.

Section Sched.
  Context {S E : Type}.
  Variable step : S -> E -> S.

  (** State reached after the whole schedule. *)
  Definition run (sched : list E) (s : S) : S := fold_left step sched s.

  (** All states passed through, the initial one first. *)
  Fixpoint states (sched : list E) (s : S) : list S :=
    match sched with
    | [] => [s]
    | e :: r => s :: states r (step s e)
    end.

  (** [s'] is reachable from [s]. *)
  Definition reaches (s s' : S) : Prop := exists sched, run sched s = s'.
End Sched.
