(** Commit graphs in index order (shared by C18, C37, C39).

    A graph is the list of parent-position lists in index (= insertion = topological)
    order: entry [i] lists the positions of the parents of the commit at position [i],
    all strictly smaller than [i] ([wf]) — the invariant of
    lib/src/default_index/mutable.rs:129 add_commit_data (a parent must already be indexed).
    Generation numbers are computed as add_commit_data does (mutable.rs:144-151).

    Contents: [anc] (reflexive-transitive ancestry), a computable [ancb] (one bit set per
    commit, built left to right) with its correctness proof, generation-number facts,
    maximal / minimal elements of a position set. *)
From Coq Require Import List Arith Lia NArith Bool.
Import ListNotations.

Definition graph := list (list nat).
Definition parents (g : graph) (i : nat) : list nat := nth i g [].

Definition wf (g : graph) : Prop := forall i p, In p (parents g i) -> p < i.

Fixpoint wfb_from (i : nat) (g : graph) : bool :=
  match g with
  | [] => true
  | ps :: t => forallb (fun p => p <? i) ps && wfb_from (S i) t
  end.
Definition wfb (g : graph) : bool := wfb_from 0 g.

(** Generation numbers, as add_commit_data computes them: 0, then max with parent + 1. *)
Definition gen_of (gs : list nat) (ps : list nat) : nat :=
  fold_left (fun acc p => Nat.max acc (S (nth p gs 0))) ps 0.
Definition gens (g : graph) : list nat :=
  fold_left (fun gs ps => gs ++ [gen_of gs ps]) g [].
Definition gen (g : graph) (i : nat) : nat := nth i (gens g) 0.

(** Ancestry: [anc g a d] — [a] is [d] or reachable from [d] through parent edges. *)
Inductive anc (g : graph) (a : nat) : nat -> Prop :=
| anc_refl : anc g a a
| anc_step : forall d p, In p (parents g d) -> anc g a p -> anc g a d.

Definition sanc (g : graph) (a d : nat) : Prop := anc g a d /\ a <> d.

(** One bit set per commit: bit [a] of entry [d] says "a is an ancestor of d". *)
Definition ancset_of (t : list N) (i : nat) (ps : list nat) : N :=
  fold_left (fun acc p => N.lor acc (nth p t 0%N)) ps (N.setbit 0 (N.of_nat i)).
Definition ancsets (g : graph) : list N :=
  fold_left (fun t ps => t ++ [ancset_of t (length t) ps]) g [].
Definition ancb_t (t : list N) (a d : nat) : bool :=
  (a =? d) || N.testbit (nth d t 0%N) (N.of_nat a).
Definition ancb (g : graph) (a d : nat) : bool := ancb_t (ancsets g) a d.

(** Maximal ("heads") and minimal ("roots") elements of a position set, in list order. *)
Definition heads_of_t (t : list N) (S : list nat) : list nat :=
  filter (fun x => negb (existsb (fun y => negb (y =? x) && ancb_t t x y) S)) S.
Definition roots_of_t (t : list N) (S : list nat) : list nat :=
  filter (fun x => negb (existsb (fun y => negb (y =? x) && ancb_t t y x) S)) S.
Definition heads_of (g : graph) := heads_of_t (ancsets g).
Definition roots_of (g : graph) := roots_of_t (ancsets g).
(** [x] is an ancestor of some element of [S]. *)
Definition anc_any_t (t : list N) (S : list nat) (x : nat) : bool :=
  existsb (fun s => ancb_t t x s) S.
Definition anc_any (g : graph) := anc_any_t (ancsets g).

Definition memn (x : nat) (l : list nat) : bool := existsb (Nat.eqb x) l.

(* ------------------------------------------------------------------------------------ *)

Lemma memn_spec x l : memn x l = true <-> In x l.
Proof.
  unfold memn. rewrite existsb_exists. split.
  - intros (y & Hy & E). apply Nat.eqb_eq in E. now subst.
  - intros H. exists x. split; [assumption|apply Nat.eqb_refl].
Qed.

Lemma memn_false x l : memn x l = false <-> ~ In x l.
Proof.
  rewrite <- memn_spec. destruct (memn x l); split; intros; congruence.
Qed.

Lemma parents_app_old g ps i : i < length g -> parents (g ++ [ps]) i = parents g i.
Proof. intros H. unfold parents. now rewrite app_nth1. Qed.

Lemma parents_app_new g ps : parents (g ++ [ps]) (length g) = ps.
Proof. unfold parents. rewrite app_nth2 by lia. now rewrite Nat.sub_diag. Qed.

Lemma parents_out g i : length g <= i -> parents g i = [].
Proof. intros H. unfold parents. now rewrite nth_overflow. Qed.

Lemma parents_in g i p : In p (parents g i) -> i < length g.
Proof.
  intros H. destruct (Nat.lt_ge_cases i (length g)) as [L|L]; [assumption|].
  rewrite parents_out in H by assumption. contradiction.
Qed.

Lemma wf_snoc g ps : wf (g ++ [ps]) <-> wf g /\ (forall p, In p ps -> p < length g).
Proof.
  split.
  - intros W. split.
    + intros i p Hp. pose proof (parents_in _ _ _ Hp) as L.
      apply W. now rewrite parents_app_old.
    + intros p Hp. apply W. now rewrite parents_app_new.
  - intros [W Hps] i p Hp.
    destruct (Nat.lt_ge_cases i (length g)) as [L|L].
    + rewrite parents_app_old in Hp by assumption. now apply W.
    + destruct (Nat.eq_dec i (length g)) as [->|N].
      * rewrite parents_app_new in Hp. now apply Hps.
      * rewrite parents_out in Hp; [contradiction|]. rewrite app_length. simpl. lia.
Qed.

Lemma wf_nil : wf [].
Proof. intros i p H. unfold parents in H. destruct i; contradiction. Qed.

Lemma wfb_from_spec g : forall i,
  wfb_from i g = true <-> (forall k p, In p (nth k g []) -> p < i + k).
Proof.
  induction g as [|ps t IH]; intros i; simpl.
  - split; [|reflexivity]. intros _ k p H. destruct k; contradiction.
  - rewrite andb_true_iff, forallb_forall, IH. split.
    + intros [H1 H2] k p Hp. destruct k as [|k].
      * apply H1 in Hp. apply Nat.ltb_lt in Hp. lia.
      * apply H2 in Hp. lia.
    + intros H. split.
      * intros p Hp. apply Nat.ltb_lt. specialize (H 0 p Hp). lia.
      * intros k p Hp. specialize (H (S k) p Hp). lia.
Qed.

Lemma wfb_spec g : wfb g = true <-> wf g.
Proof. unfold wfb, wf, parents. rewrite wfb_from_spec. reflexivity. Qed.

(** * ancestry *)

Lemma anc_trans g a b c : anc g a b -> anc g b c -> anc g a c.
Proof.
  intros Hab Hbc. induction Hbc as [|d p Hp Hbp IH]; [assumption|].
  eapply anc_step; eassumption.
Qed.

Lemma anc_parent g p d : In p (parents g d) -> anc g p d.
Proof. intros H. eapply anc_step; [eassumption|constructor]. Qed.

Lemma anc_le g a d : wf g -> anc g a d -> a <= d.
Proof.
  intros W H. induction H as [|d p Hp _ IH]; [lia|]. apply W in Hp. lia.
Qed.

Lemma sanc_lt g a d : wf g -> sanc g a d -> a < d.
Proof. intros W [H N]. pose proof (anc_le _ _ _ W H). lia. Qed.

Lemma sanc_inv g a d : sanc g a d -> exists p, In p (parents g d) /\ anc g a p.
Proof.
  intros [H N]. destruct H as [|d p Hp Hap]; [congruence|]. now exists p.
Qed.

Lemma anc_antisym g a b : wf g -> anc g a b -> anc g b a -> a = b.
Proof. intros W H1 H2. apply (anc_le _ _ _ W) in H1, H2. lia. Qed.

Lemma sanc_anc_trans g a b c : wf g -> sanc g a b -> anc g b c -> sanc g a c.
Proof.
  intros W [H N] H2. split; [eapply anc_trans; eassumption|].
  pose proof (anc_le _ _ _ W H). pose proof (anc_le _ _ _ W H2). intros ->.
  assert (b = c) by lia. subst. apply N. eapply anc_antisym; eassumption.
Qed.

Lemma anc_sanc_trans g a b c : wf g -> anc g a b -> sanc g b c -> sanc g a c.
Proof.
  intros W H [H2 N]. split; [eapply anc_trans; eassumption|].
  pose proof (anc_le _ _ _ W H). pose proof (anc_le _ _ _ W H2). lia.
Qed.

Lemma anc_snoc_old g ps a d :
  wf (g ++ [ps]) -> d < length g -> (anc (g ++ [ps]) a d <-> anc g a d).
Proof.
  intros W L. split; intros H.
  - induction H as [|d p Hp _ IH]; [constructor|].
    pose proof (W _ _ Hp) as Lp. rewrite parents_app_old in Hp by assumption.
    eapply anc_step; [eassumption|]. apply IH. lia.
  - induction H as [|d p Hp _ IH]; [constructor|].
    assert (Lp : p < d). { apply wf_snoc in W. destruct W as [W _]. now apply W. }
    eapply anc_step; [rewrite parents_app_old by assumption; eassumption|].
    apply IH. lia.
Qed.

Lemma anc_out g a d : length g <= d -> (anc g a d <-> a = d).
Proof.
  intros L. split.
  - intros H. destruct H as [|d p Hp _]; [reflexivity|].
    rewrite parents_out in Hp by assumption. contradiction.
  - intros ->. constructor.
Qed.

(** * the bit-set table *)

Lemma ancsets_snoc g ps :
  ancsets (g ++ [ps]) = ancsets g ++ [ancset_of (ancsets g) (length (ancsets g)) ps].
Proof. unfold ancsets. now rewrite fold_left_app. Qed.

Lemma ancsets_length g : length (ancsets g) = length g.
Proof.
  induction g as [|ps g IH] using rev_ind; [reflexivity|].
  rewrite ancsets_snoc, !app_length, IH. reflexivity.
Qed.

Lemma testbit_fold_lor (f : nat -> N) ps init k :
  N.testbit (fold_left (fun acc p => N.lor acc (f p)) ps init) k =
  N.testbit init k || existsb (fun p => N.testbit (f p) k) ps.
Proof.
  revert init. induction ps as [|p ps IH]; intros init; simpl.
  - now rewrite orb_false_r.
  - rewrite IH, N.lor_spec. now rewrite orb_assoc.
Qed.

Lemma ancset_of_spec t i ps a :
  N.testbit (ancset_of t i ps) (N.of_nat a) =
  (a =? i) || existsb (fun p => N.testbit (nth p t 0%N) (N.of_nat a)) ps.
Proof.
  unfold ancset_of. rewrite (testbit_fold_lor (fun p => nth p t 0%N)). f_equal.
  rewrite N.setbit_eqb, N.bits_0, orb_false_r.
  destruct (Nat.eqb_spec a i) as [->|N].
  - apply N.eqb_refl.
  - apply N.eqb_neq. intros E. apply Nat2N.inj in E. congruence.
Qed.

Lemma ancsets_spec g : wf g -> forall a d, d < length g ->
  (N.testbit (nth d (ancsets g) 0%N) (N.of_nat a) = true <-> anc g a d).
Proof.
  induction g as [|ps g IH] using rev_ind; intros W a d L.
  - simpl in L. lia.
  - pose proof W as W'. apply wf_snoc in W'. destruct W' as [Wg Hps].
    specialize (IH Wg). rewrite ancsets_snoc, ancsets_length.
    rewrite app_length in L. simpl in L.
    destruct (Nat.eq_dec d (length g)) as [->|N].
    + rewrite app_nth2 by (rewrite ancsets_length; lia).
      rewrite ancsets_length, Nat.sub_diag. cbn [nth].
      rewrite ancset_of_spec, orb_true_iff, Nat.eqb_eq, existsb_exists. split.
      * intros [->|(p & Hp & Hb)]; [constructor|].
        eapply anc_step; [rewrite parents_app_new; eassumption|].
        apply anc_snoc_old; [assumption|now apply Hps|].
        apply IH; [now apply Hps|assumption].
      * intros H. inversion H as [|d' p Hp Hap]; subst; [now left|].
        rewrite parents_app_new in Hp. right. exists p. split; [assumption|].
        apply anc_snoc_old in Hap; [|assumption|now apply Hps].
        apply IH; [now apply Hps|assumption].
    + assert (L' : d < length g) by lia.
      rewrite app_nth1 by (now rewrite ancsets_length).
      rewrite anc_snoc_old by assumption. now apply IH.
Qed.

Lemma ancb_spec g : wf g -> forall a d, ancb g a d = true <-> anc g a d.
Proof.
  intros W a d. unfold ancb, ancb_t.
  destruct (Nat.lt_ge_cases d (length g)) as [L|L].
  - rewrite orb_true_iff, Nat.eqb_eq, ancsets_spec by assumption.
    split; [intros [->|H]; [constructor|assumption]|now right].
  - rewrite nth_overflow by (now rewrite ancsets_length).
    rewrite N.bits_0, orb_false_r, anc_out by assumption. apply Nat.eqb_eq.
Qed.

(** * generation numbers *)

Lemma gens_snoc g ps : gens (g ++ [ps]) = gens g ++ [gen_of (gens g) ps].
Proof. unfold gens. now rewrite fold_left_app. Qed.

Lemma gens_length g : length (gens g) = length g.
Proof.
  induction g as [|ps g IH] using rev_ind; [reflexivity|].
  rewrite gens_snoc, !app_length, IH. reflexivity.
Qed.

Lemma gen_snoc_old g ps i : i < length g -> gen (g ++ [ps]) i = gen g i.
Proof. intros L. unfold gen. rewrite gens_snoc, app_nth1; [reflexivity|now rewrite gens_length]. Qed.

Lemma gen_snoc_new g ps : gen (g ++ [ps]) (length g) = gen_of (gens g) ps.
Proof.
  unfold gen. rewrite gens_snoc, app_nth2 by (rewrite gens_length; lia).
  now rewrite gens_length, Nat.sub_diag.
Qed.

Lemma gen_out g i : length g <= i -> gen g i = 0.
Proof. intros L. unfold gen. apply nth_overflow. now rewrite gens_length. Qed.

Lemma fold_max_list_max (f : nat -> nat) ps init :
  fold_left (fun acc p => Nat.max acc (f p)) ps init = Nat.max init (list_max (map f ps)).
Proof.
  revert init. induction ps as [|p ps IH]; intros init; simpl.
  - lia.
  - rewrite IH. lia.
Qed.

Lemma gen_of_ext gs gs' ps :
  (forall p, In p ps -> nth p gs 0 = nth p gs' 0) -> gen_of gs ps = gen_of gs' ps.
Proof.
  intros H. unfold gen_of.
  rewrite (fold_max_list_max (fun p => S (nth p gs 0))).
  rewrite (fold_max_list_max (fun p => S (nth p gs' 0))).
  f_equal. f_equal. apply map_ext_in. intros p Hp. now rewrite H.
Qed.

(** The generation number of a commit is 0 without parents, else 1 + the largest parent
    generation (mutable.rs:144-151). *)
Lemma gen_spec g : wf g -> forall i,
  gen g i = list_max (map (fun p => S (gen g p)) (parents g i)).
Proof.
  induction g as [|ps g IH] using rev_ind; intros W i.
  - rewrite gen_out by (simpl; lia). rewrite parents_out by (simpl; lia). reflexivity.
  - pose proof W as W'. apply wf_snoc in W'. destruct W' as [Wg Hps]. specialize (IH Wg).
    destruct (Nat.lt_ge_cases i (length g)) as [L|L].
    + rewrite gen_snoc_old, parents_app_old by assumption. rewrite IH.
      f_equal. apply map_ext_in. intros p Hp. f_equal. symmetry. apply gen_snoc_old.
      apply Wg in Hp. lia.
    + destruct (Nat.eq_dec i (length g)) as [->|N].
      * rewrite gen_snoc_new, parents_app_new. unfold gen_of.
        rewrite (fold_max_list_max (fun p => S (nth p (gens g) 0))). simpl.
        f_equal. apply map_ext_in. intros p Hp. f_equal. symmetry.
        apply gen_snoc_old. now apply Hps.
      * rewrite gen_out, parents_out by (rewrite app_length; simpl; lia). reflexivity.
Qed.

Lemma list_max_in l x : In x l -> x <= list_max l.
Proof.
  induction l as [|y l IH]; simpl; [contradiction|]. intros [->|H]; [lia|]. apply IH in H. lia.
Qed.

Lemma gen_parent_lt g i p : wf g -> In p (parents g i) -> gen g p < gen g i.
Proof.
  intros W Hp. rewrite (gen_spec g W i).
  assert (In (S (gen g p)) (map (fun p => S (gen g p)) (parents g i))).
  { apply in_map_iff. now exists p. }
  apply list_max_in in H. lia.
Qed.

Lemma gen_anc_le g a d : wf g -> anc g a d -> gen g a <= gen g d.
Proof.
  intros W H. induction H as [|d p Hp _ IH]; [lia|].
  pose proof (gen_parent_lt _ _ _ W Hp). lia.
Qed.

Lemma gen_sanc_lt g a d : wf g -> sanc g a d -> gen g a < gen g d.
Proof.
  intros W H. destruct (sanc_inv _ _ _ H) as (p & Hp & Hap).
  pose proof (gen_parent_lt _ _ _ W Hp). pose proof (gen_anc_le _ _ _ W Hap). lia.
Qed.

(** * maximal and minimal elements *)

Lemma ancb_t_spec g : wf g -> forall a d, ancb_t (ancsets g) a d = true <-> anc g a d.
Proof. exact (ancb_spec g). Qed.

Lemma heads_of_spec g S x : wf g ->
  (In x (heads_of g S) <-> In x S /\ forall y, In y S -> anc g x y -> y = x).
Proof.
  intros W. unfold heads_of, heads_of_t. rewrite filter_In. split.
  - intros [HS Hn]. split; [assumption|]. intros y Hy Ha.
    apply negb_true_iff in Hn.
    destruct (Nat.eq_dec y x) as [E|NE]; [assumption|exfalso].
    assert (X : existsb (fun y => negb (y =? x) && ancb_t (ancsets g) x y) S = true).
    { apply existsb_exists. exists y. split; [assumption|].
      apply andb_true_iff. split; [apply negb_true_iff; now apply Nat.eqb_neq|].
      now apply ancb_t_spec. }
    congruence.
  - intros [HS Hm]. split; [assumption|]. apply negb_true_iff.
    destruct (existsb _ S) eqn:E; [|reflexivity]. exfalso.
    apply existsb_exists in E. destruct E as (y & Hy & E).
    apply andb_true_iff in E. destruct E as [E1 E2].
    apply negb_true_iff, Nat.eqb_neq in E1. apply ancb_t_spec in E2; [|assumption].
    apply E1. now apply Hm.
Qed.

Lemma roots_of_spec g S x : wf g ->
  (In x (roots_of g S) <-> In x S /\ forall y, In y S -> anc g y x -> y = x).
Proof.
  intros W. unfold roots_of, roots_of_t. rewrite filter_In. split.
  - intros [HS Hn]. split; [assumption|]. intros y Hy Ha.
    apply negb_true_iff in Hn.
    destruct (Nat.eq_dec y x) as [E|NE]; [assumption|exfalso].
    assert (X : existsb (fun y => negb (y =? x) && ancb_t (ancsets g) y x) S = true).
    { apply existsb_exists. exists y. split; [assumption|].
      apply andb_true_iff. split; [apply negb_true_iff; now apply Nat.eqb_neq|].
      now apply ancb_t_spec. }
    congruence.
  - intros [HS Hm]. split; [assumption|]. apply negb_true_iff.
    destruct (existsb _ S) eqn:E; [|reflexivity]. exfalso.
    apply existsb_exists in E. destruct E as (y & Hy & E).
    apply andb_true_iff in E. destruct E as [E1 E2].
    apply negb_true_iff, Nat.eqb_neq in E1. apply ancb_t_spec in E2; [|assumption].
    apply E1. now apply Hm.
Qed.

Lemma anc_any_spec g S x : wf g ->
  (anc_any g S x = true <-> exists s, In s S /\ anc g x s).
Proof.
  intros W. unfold anc_any, anc_any_t. rewrite existsb_exists.
  split; intros (s & Hs & H); exists s; (split; [assumption|]); now apply ancb_t_spec.
Qed.

(** Every element of a finite set lies below a maximal one and above a minimal one. *)
Lemma below_head g S x : wf g -> In x S ->
  exists h, In h (heads_of g S) /\ anc g x h.
Proof.
  intros W. remember (fold_right Nat.max 0 S - x) as k eqn:Ek.
  revert x Ek. induction k as [k IH] using lt_wf_ind. intros x Ek Hx.
  destruct (in_dec Nat.eq_dec x (heads_of g S)) as [H|H].
  - exists x. split; [assumption|constructor].
  - assert (E : exists y, In y S /\ anc g x y /\ y <> x).
    { destruct (existsb (fun y => negb (y =? x) && ancb_t (ancsets g) x y) S) eqn:E.
      - apply existsb_exists in E. destruct E as (y & Hy & E).
        apply andb_true_iff in E. destruct E as [E1 E2].
        apply negb_true_iff, Nat.eqb_neq in E1. apply ancb_t_spec in E2; [|assumption].
        now exists y.
      - exfalso. apply H. unfold heads_of, heads_of_t. apply filter_In.
        split; [assumption|]. now rewrite E. }
    destruct E as (y & Hy & Ha & Ny).
    assert (L : x < y). { pose proof (anc_le _ _ _ W Ha). lia. }
    assert (M : y <= fold_right Nat.max 0 S).
    { clear - Hy. induction S as [|z S IH]; simpl; [contradiction|].
      destruct Hy as [->|Hy]; [lia|]. apply IH in Hy. lia. }
    destruct (IH (fold_right Nat.max 0 S - y)) with (x := y) as (h & Hh & Hyh);
      [lia|reflexivity|assumption|].
    exists h. split; [assumption|]. eapply anc_trans; eassumption.
Qed.

Lemma above_root g S x : wf g -> In x S ->
  exists r, In r (roots_of g S) /\ anc g r x.
Proof.
  intros W. induction x as [x IH] using lt_wf_ind. intros Hx.
  destruct (in_dec Nat.eq_dec x (roots_of g S)) as [H|H].
  - exists x. split; [assumption|constructor].
  - assert (E : exists y, In y S /\ anc g y x /\ y <> x).
    { destruct (existsb (fun y => negb (y =? x) && ancb_t (ancsets g) y x) S) eqn:E.
      - apply existsb_exists in E. destruct E as (y & Hy & E).
        apply andb_true_iff in E. destruct E as [E1 E2].
        apply negb_true_iff, Nat.eqb_neq in E1. apply ancb_t_spec in E2; [|assumption].
        now exists y.
      - exfalso. apply H. unfold roots_of, roots_of_t. apply filter_In.
        split; [assumption|]. now rewrite E. }
    destruct E as (y & Hy & Ha & Ny).
    assert (L : y < x). { pose proof (anc_le _ _ _ W Ha). lia. }
    destruct (IH y L Hy) as (r & Hr & Hry).
    exists r. split; [assumption|]. eapply anc_trans; eassumption.
Qed.
