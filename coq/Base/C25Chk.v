(** C25 correspondence case: one real checkout (LocalWorkingCopy through
    testutils::TestWorkspace) with the full disk listing before and after, and the boolean
    property checkers evaluated on the real result. Definitions only; the list of reserved
    names is a parameter here and instantiated in Model/C25.v. *)
From Verif Require Export Base.Prelude Base.FsC Base.WcC.
Local Open Scope string_scope.
Local Open Scope list_scope.

(** Micro-correspondence of the file-system primitives of Base/FsC.v with the real
    operating system: the harness issues real std::fs calls and records what happened. *)
Inductive pcall :=
| PcCreateDir (p : path) | PcCreateNew (p : path) | PcRemoveFile (p : path)
| PcRemoveDir (p : path) | PcSymlink (p : path) (t : string) | PcLstat (p : path).

Definition pres_code (r : pres) : N :=
  match r with
  | POk => 0 | PExists => 1 | PNotFound => 2 | PIsDir => 3 | PNotDir => 4 | PNotEmpty => 5
  | PUnsafe => 99
  end%N.
Definition lres_code (r : lres) : N :=
  match r with
  | LNone => 10 | LSome (EFile _ _) => 11 | LSome (ESym _) => 12 | LSome EDir => 13 | LUnsafe => 99
  end%N.

Definition run_pcall (w : world) (c : pcall) : N * world :=
  match c with
  | PcCreateDir p => let '(r, w') := p_create_dir w p in (pres_code r, w')
  | PcCreateNew p => let '(r, w') := p_create_new w p in (pres_code r, w')
  | PcRemoveFile p => let '(r, w') := p_remove_file w p in (pres_code r, w')
  | PcRemoveDir p => let '(r, w') := p_remove_dir w p in (pres_code r, w')
  | PcSymlink p t => let '(r, w') := p_symlink w p t in (pres_code r, w')
  | PcLstat p => let '(r, w') := p_lstat w p in (lres_code r, w')
  end.

Fixpoint replay_pcalls (w : world) (l : list (pcall * N)) : bool * world :=
  match l with
  | [] => (true, w)
  | (c, code) :: r => let '(code', w') := run_pcall w c in
                      if N.eqb code code' then replay_pcalls w' r else (false, w')
  end.

Record case := mk_case {
  c_disk0 : fs;                       (* listing of the workspace before the checkout *)
  c_states0 : list (path * bool);     (* recorded file states before: path, placeholder? *)
  c_t1 : tree;                        (* the working copy's current tree *)
  c_t2 : tree;                        (* the tree checked out *)
  c_sparse : list path;               (* sparse patterns (prefixes) *)
  c_diff : list dentry;               (* real diff_stream_for_file_system(t1, t2, sparse) *)
  c_res : result;                     (* what check_out returned *)
  c_disk1 : fs;                       (* listing after *)
  c_states1 : list (path * bool);     (* file states after *)
  c_outside_ok : bool;                (* everything outside the workspace root is unchanged *)
  c_trace : list (N * path);          (* the real file-system calls of the checkout, in order, as
                                         reported by the fs.* observation points: (op, path
                                         relative to the workspace root) *)
  c_prims : list (pcall * N);         (* primitive calls issued by the harness on the real disk
                                         afterwards (only on safe paths), with the result code *)
  c_disk2 : fs;                       (* listing after those calls *)
}.

(** The old tree tracks a file at [p] and the checkout changes or removes it. *)
Definition tracked_changed (d : list dentry) (p : path) : bool :=
  existsb (fun e => path_eqb (d_path e) p && is_some (d_before e)) d.

(** Some removed path lies strictly below [p]. *)
Definition removal_below (d : list dentry) (p : path) : bool :=
  existsb (fun e => is_strict_prefix p (d_path e) && negb (is_some (d_after e))) d.

(** Every file or link that existed before and is not a tracked file the checkout changes
    is still there, identical; every directory not above a removed path is still there. *)
Definition untouched_b (d : list dentry) (f0 f1 : fs) : bool :=
  forallb (fun qe =>
             match lookup f0 (fst qe) with
             | Some EDir => removal_below d (fst qe)
                            || option_eqb entry_eqb (lookup f1 (fst qe)) (Some EDir)
             | Some e => tracked_changed d (fst qe)
                         || option_eqb entry_eqb (lookup f1 (fst qe)) (Some e)
             | None => true
             end) f0.

(** Whatever is new or different afterwards sits at a diff path or above one. *)
Definition confined_b (d : list dentry) (f0 f1 : fs) : bool :=
  forallb (fun qe =>
             option_eqb entry_eqb (lookup f0 (fst qe)) (lookup f1 (fst qe))
             || existsb (fun e => is_prefix (fst qe) (d_path e)) d) f1.

(** A file or link of the old disk at the path of the entry or above it which is not a
    tracked file that this checkout changes (such a file is removed first). *)
Definition obstacle (d : list dentry) (f0 : fs) (p : path) : bool :=
  existsb (fun qe => is_prefix (fst qe) p && is_leaf (lookup f0 (fst qe))
                     && negb (tracked_changed d (fst qe))) f0.

(** The entry asks for a file where the old tree tracked nothing. *)
Definition wants_new (e : dentry) : bool := is_some (d_after e) && negb (is_some (d_before e)).

Definition blocked (d : list dentry) (f0 : fs) (e : dentry) : bool :=
  wants_new e && obstacle d f0 (d_path e).

Definition has_placeholder (s : list (path * bool)) (p : path) : bool :=
  existsb (fun pb => path_eqb (fst pb) p && snd pb) s.

(** On success every blocked entry was skipped: counted, recorded with a placeholder
    state (so that the next snapshot re-examines the path). *)
Definition skipped_b (d : list dentry) (f0 : fs) (r : result) (states1 : list (path * bool)) : bool :=
  match r with
  | ROk s =>
      (N.of_nat (length (filter (blocked d f0) d)) <=? n_skipped s)%N
      && forallb (fun e => negb (blocked d f0 e) || has_placeholder states1 (d_path e)) d
  | _ => true
  end.

Section Reserved.
Variable rn : list name.

(** Nothing at or below a name [.git] / [.jj] (at any depth) was created, changed or
    removed. *)
Definition reserved_b (f0 f1 : fs) : bool :=
  forallb (fun qe => negb (has_reserved rn (fst qe))
                     || option_eqb entry_eqb (lookup f0 (fst qe)) (lookup f1 (fst qe)))
          (f0 ++ f1).

Definition okb (c : case) : bool :=
  untouched_b (c_diff c) (c_disk0 c) (c_disk1 c)
  && confined_b (c_diff c) (c_disk0 c) (c_disk1 c)
  && skipped_b (c_diff c) (c_disk0 c) (c_res c) (c_states1 c)
  && reserved_b (c_disk0 c) (c_disk1 c)
  && c_outside_ok c
  && negb (result_eqb (c_res c) REscape).

End Reserved.

(** The hypotheses of the theorems, decided on the recorded inputs: the listing is a
    well-formed disk, the root holds an entry with a reserved name, no diff path is empty. *)
Definition wf_fs_b (f : fs) : bool :=
  forallb (fun qe => match fst qe with [] => false | _ => all_dirs f (parent (fst qe)) end) f.
Definition anchor_b (rn : list name) (f : fs) : bool :=
  existsb (fun qe => match fst qe with [x] => is_reserved rn x | _ => false end) f.
Definition paths_ok_b (d : list dentry) : bool :=
  forallb (fun e => match d_path e with [] => false | _ => true end) d.

(** detail: 1 diff order, 2 result, 3 disk, 4 file states, 5 trace has an unsafe call,
    6 the recorded inputs do not satisfy the hypotheses of the theorems, 7 a primitive call
    behaved differently on the real disk, 8 the real sequence of file-system calls differs
    from the model's *)
Definition check_case_rn (rn : list name) (c : case) : N :=
  let d := diff_fs (matches (c_sparse c)) (c_t1 c) (c_t2 c) in
  let o := run_update rn (c_disk0 c) (c_states0 c) d in
  let ok_diff := list_eqb dentry_eqb d (c_diff c) in
  let ok_res := result_eqb (o_res o) (c_res c) in
  let ok_fs := fs_eqb (o_fs o) (c_disk1 c) in
  let ok_states := states_eqb (o_states o) (c_states1 c) in
  let ok_trace := forallb ev_safe (o_trace o) in
  let ok_pre := wf_fs_b (c_disk0 c) && anchor_b rn (c_disk0 c) && paths_ok_b (c_diff c) in
  let '(ok_codes, w2) := replay_pcalls (mkW (c_disk1 c) []) (c_prims c) in
  let ok_prims := ok_codes && fs_eqb (w_fs w2) (c_disk2 c) in
  let ok_calls := list_eqb (pair_eqb N.eqb path_eqb) (visible_trace (o_trace o)) (c_trace c) in
  let detail := (if negb ok_diff then 1 else if negb ok_res then 2 else if negb ok_fs then 3
                 else if negb ok_states then 4 else if negb ok_trace then 5
                 else if negb ok_pre then 6 else if negb ok_prims then 7 else 8)%N in
  verdict (ok_diff && ok_res && ok_fs && ok_states && ok_trace && ok_pre && ok_prims && ok_calls)
          (okb rn c) false detail.
