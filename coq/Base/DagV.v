(** Commit graphs for the view / rewrite models (C10, C11).

    A graph is the list of parent lists in insertion (= index, = topological) order:
    the commit at position [i] has parents [nth i g []], all of them smaller than [i]
    ([wf_dag]). Ancestry [anc] is the reflexive-transitive closure of the parent relation;
    [ancs g S] computes the set of ancestors of a set of positions by one descending sweep
    (no fuel: the sweep is structural in the position counter), [ancb] decides ancestry,
    [heads_of] is the model of [Index::heads] (candidates that are not ancestors of other
    candidates, duplicates dropped). Finite sets of positions are lists read through [In];
    [norm_set] gives the sorted duplicate-free canonical form used when comparing with the
    implementation. *)
From Coq Require Import List Arith Bool Lia.
Import ListNotations.

Definition dag := list (list nat).
Definition parents (g : dag) (i : nat) : list nat := nth i g [].

Definition memn (x : nat) (l : list nat) : bool := existsb (Nat.eqb x) l.

Fixpoint wf_from (i : nat) (g : dag) : bool :=
  match g with
  | [] => true
  | ps :: t => forallb (fun p => p <? i) ps && wf_from (S i) t
  end.
Definition wf_dagb (g : dag) : bool := wf_from 0 g.
Definition wf_dag (g : dag) : Prop := forall i p, In p (parents g i) -> p < i.

(** [anc g a d]: [a] is [d] or an ancestor of [d]. *)
Inductive anc (g : dag) : nat -> nat -> Prop :=
| anc_refl x : anc g x x
| anc_step a p d : In p (parents g d) -> anc g a p -> anc g a d.

(** Descending sweep: positions [i-1 .. 0]; a marked position marks its parents. *)
Fixpoint sweep (g : dag) (i : nat) (m : list nat) : list nat :=
  match i with
  | O => m
  | S j => sweep g j (if memn j m then parents g j ++ m else m)
  end.
Definition ancs (g : dag) (S : list nat) : list nat := sweep g (length g) S.
Definition ancb (g : dag) (a d : nat) : bool := memn a (ancs g [d]).

(** Sorted duplicate-free lists as canonical sets. *)
Fixpoint ins (x : nat) (l : list nat) : list nat :=
  match l with
  | [] => [x]
  | y :: t => if x <? y then x :: l else if x =? y then l else y :: ins x t
  end.
Definition norm_set (l : list nat) : list nat := fold_right ins [] l.
Fixpoint remn (x : nat) (l : list nat) : list nat :=
  match l with
  | [] => []
  | y :: t => if x =? y then remn x t else y :: remn x t
  end.

(** [Index::heads]: the candidates that are not strict ancestors of another candidate. *)
Definition heads_of (g : dag) (S : list nat) : list nat :=
  let below := ancs g (flat_map (parents g) S) in
  norm_set (filter (fun x => negb (memn x below)) S).

(** * Lemmas *)

Lemma memn_In x l : memn x l = true <-> In x l.
Proof.
  unfold memn. rewrite existsb_exists. split.
  - intros [y [Hy E]]. apply Nat.eqb_eq in E. now subst.
  - intros H. exists x. split; [assumption|apply Nat.eqb_refl].
Qed.

Lemma memn_false x l : memn x l = false <-> ~ In x l.
Proof.
  rewrite <- memn_In. destruct (memn x l); split; intros; congruence.
Qed.

Lemma wf_from_spec g : forall k, wf_from k g = true ->
  forall i p, In p (nth i g []) -> p < k + i.
Proof.
  induction g as [|ps t IH]; intros k H i p Hp.
  - destruct i; contradiction.
  - cbn [wf_from] in H. apply andb_true_iff in H. destruct H as [H1 H2].
    destruct i as [|i]; cbn [nth] in Hp.
    + rewrite forallb_forall in H1. apply H1 in Hp. apply Nat.ltb_lt in Hp. lia.
    + specialize (IH (S k) H2 i p Hp). lia.
Qed.

Lemma wf_dagb_spec g : wf_dagb g = true -> wf_dag g.
Proof.
  intros H i p Hp. apply (wf_from_spec g 0 H i p Hp).
Qed.

Lemma wf_from_complete g : forall k,
  (forall i p, In p (nth i g []) -> p < k + i) -> wf_from k g = true.
Proof.
  induction g as [|ps t IH]; intros k H; [reflexivity|].
  cbn [wf_from]. apply andb_true_iff. split.
  - apply forallb_forall. intros p Hp. apply Nat.ltb_lt.
    specialize (H 0 p Hp). lia.
  - apply IH. intros i p Hp. specialize (H (S i) p Hp). lia.
Qed.

Lemma wf_dagb_complete g : wf_dag g -> wf_dagb g = true.
Proof. intros H. apply wf_from_complete. intros i p Hp. apply (H i p Hp). Qed.

Lemma parents_out g i : length g <= i -> parents g i = [].
Proof. intros H. unfold parents. now apply nth_overflow. Qed.

Lemma parents_app_l g h i : i < length g -> parents (g ++ h) i = parents g i.
Proof. intros H. unfold parents. now apply app_nth1. Qed.

Lemma parents_snoc_new g ps : parents (g ++ [ps]) (length g) = ps.
Proof. unfold parents. rewrite app_nth2 by lia. now rewrite Nat.sub_diag. Qed.

Lemma wf_dag_snoc g ps :
  wf_dag g -> (forall p, In p ps -> p < length g) -> wf_dag (g ++ [ps]).
Proof.
  intros W H i p Hp.
  destruct (Nat.lt_ge_cases i (length g)) as [L|L].
  - rewrite parents_app_l in Hp by assumption. now apply W.
  - destruct (Nat.eq_dec i (length g)) as [->|N].
    + rewrite parents_snoc_new in Hp. now apply H.
    + rewrite parents_out in Hp; [contradiction|]. rewrite app_length. cbn. lia.
Qed.

Lemma wf_parent_lt_len g i p : wf_dag g -> In p (parents g i) -> i < length g.
Proof.
  intros _ Hp. destruct (Nat.lt_ge_cases i (length g)) as [L|L]; [assumption|].
  rewrite parents_out in Hp by assumption. contradiction.
Qed.

Lemma anc_trans g a b c : anc g a b -> anc g b c -> anc g a c.
Proof.
  intros H1 H2. induction H2 as [x|b' p d Hp _ IH]; [assumption|].
  eapply anc_step; [eassumption|]. now apply IH.
Qed.

Lemma anc_parent g p d : In p (parents g d) -> anc g p d.
Proof. intros H. eapply anc_step; [eassumption|constructor]. Qed.

Lemma anc_le g a d : wf_dag g -> anc g a d -> a <= d.
Proof.
  intros W H. induction H as [x|a p d Hp _ IH]; [lia|].
  apply W in Hp. lia.
Qed.

Lemma anc_antisym g a d : wf_dag g -> anc g a d -> anc g d a -> a = d.
Proof. intros W H1 H2. apply (anc_le g _ _ W) in H1. apply (anc_le g _ _ W) in H2. lia. Qed.

Lemma anc_inv g a d : anc g a d -> a = d \/ exists p, In p (parents g d) /\ anc g a p.
Proof. intros H. inversion H; subst; [now left|right; eauto]. Qed.

Lemma anc_out g a d : length g <= d -> anc g a d -> a = d.
Proof.
  intros L H. apply anc_inv in H. destruct H as [H|[p [Hp _]]]; [assumption|].
  rewrite parents_out in Hp by assumption. contradiction.
Qed.

(** Ancestry is unchanged among old positions when a commit is appended. *)
Lemma anc_snoc_old g ps a d : wf_dag (g ++ [ps]) -> d < length g ->
  (anc (g ++ [ps]) a d <-> anc g a d).
Proof.
  intros W L. split; intros H.
  - induction H as [x|a p d Hp _ IH]; [constructor|].
    rewrite parents_app_l in Hp by assumption.
    eapply anc_step; [eassumption|]. apply IH.
    assert (p < d) by (apply (W d p); now rewrite parents_app_l). lia.
  - induction H as [x|a p d Hp Ha IH]; [constructor|].
    eapply anc_step; [rewrite parents_app_l by assumption; eassumption|].
    apply IH.
    assert (p < d) by (apply (W d p); now rewrite parents_app_l). lia.
Qed.

Lemma anc_snoc_new g ps a : wf_dag (g ++ [ps]) ->
  (anc (g ++ [ps]) a (length g) <->
   a = length g \/ exists p, In p ps /\ anc g a p).
Proof.
  intros W. split; intros H.
  - apply anc_inv in H. destruct H as [H|[p [Hp Ha]]]; [now left|right].
    rewrite parents_snoc_new in Hp. exists p. split; [assumption|].
    apply (anc_snoc_old g ps a p W); [|assumption].
    apply (W (length g) p). now rewrite parents_snoc_new.
  - destruct H as [->|[p [Hp Ha]]]; [constructor|].
    eapply anc_step; [rewrite parents_snoc_new; eassumption|].
    apply (anc_snoc_old g ps a p W); [|assumption].
    apply (W (length g) p). now rewrite parents_snoc_new.
Qed.

Lemma sweep_mono g i : forall m x, In x m -> In x (sweep g i m).
Proof.
  induction i as [|j IH]; intros m x H; cbn [sweep]; [assumption|].
  apply IH. destruct (memn j m); [apply in_or_app; now right|assumption].
Qed.

Lemma sweep_sound g i : forall m x, In x (sweep g i m) -> exists y, In y m /\ anc g x y.
Proof.
  induction i as [|j IH]; intros m x H; cbn [sweep] in H.
  - exists x. split; [assumption|constructor].
  - apply IH in H. destruct H as [y [Hy Ha]].
    destruct (memn j m) eqn:E; [|eauto].
    apply in_app_or in Hy. destruct Hy as [Hy|Hy]; [|eauto].
    exists j. split; [now apply memn_In|].
    eapply anc_trans; [eassumption|]. now apply anc_parent.
Qed.

Lemma sweep_complete g (W : wf_dag g) i : forall m y a,
  In y m -> y < i -> anc g a y -> In a (sweep g i m).
Proof.
  induction i as [|j IH]; intros m y a Hy L Ha; [lia|].
  cbn [sweep].
  destruct (Nat.eq_dec y j) as [->|N].
  - assert (E : memn j m = true) by now apply memn_In.
    rewrite E. apply anc_inv in Ha. destruct Ha as [->|[p [Hp Ha]]].
    + apply sweep_mono. apply in_or_app. now right.
    + apply (IH _ p a); [apply in_or_app; now left| now apply W |assumption].
  - apply (IH _ y a); [|lia|assumption].
    destruct (memn j m); [apply in_or_app; now right|assumption].
Qed.

Theorem ancs_spec g S x : wf_dag g ->
  (In x (ancs g S) <-> exists s, In s S /\ anc g x s).
Proof.
  intros W. unfold ancs. split.
  - apply sweep_sound.
  - intros [s [Hs Ha]].
    destruct (Nat.lt_ge_cases s (length g)) as [L|L].
    + now apply (sweep_complete g W _ _ s).
    + apply anc_out in Ha; [|assumption]. subst. now apply sweep_mono.
Qed.

Theorem ancb_spec g a d : wf_dag g -> (ancb g a d = true <-> anc g a d).
Proof.
  intros W. unfold ancb. rewrite memn_In, (ancs_spec g [d] a W). split.
  - intros [s [[<-|[]] H]]. assumption.
  - intros H. exists d. split; [now left|assumption].
Qed.

Lemma anc_dec g a d : wf_dag g -> {anc g a d} + {~ anc g a d}.
Proof.
  intros W. destruct (ancb g a d) eqn:E.
  - left. now apply ancb_spec.
  - right. intros H. apply (ancb_spec g a d W) in H. congruence.
Qed.

Lemma ins_In x y l : In y (ins x l) <-> y = x \/ In y l.
Proof.
  induction l as [|z t IH]; cbn [ins].
  - cbn. intuition.
  - destruct (x <? z); [cbn; intuition|].
    destruct (x =? z) eqn:E.
    + apply Nat.eqb_eq in E. subst. cbn. intuition.
    + cbn [In]. rewrite IH. intuition.
Qed.

Lemma norm_set_In y l : In y (norm_set l) <-> In y l.
Proof.
  induction l as [|x t IH]; cbn [norm_set fold_right]; [reflexivity|].
  fold (norm_set t). rewrite ins_In, IH. cbn. intuition.
Qed.

Lemma remn_In x y l : In y (remn x l) <-> y <> x /\ In y l.
Proof.
  induction l as [|z t IH]; cbn [remn]; [cbn; intuition|].
  destruct (x =? z) eqn:E.
  - apply Nat.eqb_eq in E. subst z. rewrite IH. cbn [In]. split.
    + intros [H1 H2]. split; [assumption|now right].
    + intros [H1 [H2|H2]]; [congruence|split; assumption].
  - apply Nat.eqb_neq in E. cbn [In]. rewrite IH. split.
    + intros [<-|[H1 H2]]; [split; [congruence|now left]|split; [assumption|now right]].
    + intros [H1 [H2|H2]]; [now left|right; split; assumption].
Qed.

(** Strictly increasing lists: the canonical form. *)
Fixpoint sorted (l : list nat) : Prop :=
  match l with
  | [] => True
  | x :: t => (forall y, In y t -> x < y) /\ sorted t
  end.

Lemma ins_sorted x l : sorted l -> sorted (ins x l).
Proof.
  induction l as [|z t IH]; intros S; cbn [ins].
  - cbn. intuition.
  - destruct S as [S1 S2]. destruct (x <? z) eqn:E1.
    + apply Nat.ltb_lt in E1. split; [|split; assumption].
      intros y [<-|Hy]; [assumption|]. apply S1 in Hy. lia.
    + apply Nat.ltb_ge in E1. destruct (x =? z) eqn:E2; [split; assumption|].
      apply Nat.eqb_neq in E2. split; [|now apply IH].
      intros y Hy. apply ins_In in Hy. destruct Hy as [->|Hy]; [lia|now apply S1].
Qed.

Lemma norm_set_sorted l : sorted (norm_set l).
Proof.
  induction l as [|x t IH]; cbn [norm_set fold_right]; [exact I|].
  now apply ins_sorted.
Qed.

Lemma sorted_ext l1 : forall l2, sorted l1 -> sorted l2 ->
  (forall x, In x l1 <-> In x l2) -> l1 = l2.
Proof.
  induction l1 as [|a t1 IH]; intros [|b t2] S1 S2 E.
  - reflexivity.
  - exfalso. apply (E b). now left.
  - exfalso. apply (E a). now left.
  - destruct S1 as [A1 A2]. destruct S2 as [B1 B2].
    assert (a = b).
    { destruct (proj1 (E a) (or_introl eq_refl)) as [->|Ha]; [reflexivity|].
      destruct (proj2 (E b) (or_introl eq_refl)) as [->|Hb]; [reflexivity|].
      apply B1 in Ha. apply A1 in Hb. lia. }
    subst b. f_equal. apply IH; [assumption|assumption|].
    intros x. split; intros H.
    + destruct (proj1 (E x) (or_intror H)) as [->|Hx]; [|assumption].
      apply A1 in H. lia.
    + destruct (proj2 (E x) (or_intror H)) as [->|Hx]; [|assumption].
      apply B1 in H. lia.
Qed.

Lemma sorted_NoDup l : sorted l -> NoDup l.
Proof.
  induction l as [|x t IH]; intros S; constructor.
  - destruct S as [S1 _]. intros H. apply S1 in H. lia.
  - apply IH. apply S.
Qed.

Theorem heads_of_spec g S x : wf_dag g ->
  (In x (heads_of g S) <->
   In x S /\ ~ exists y, In y S /\ y <> x /\ anc g x y).
Proof.
  intros W. unfold heads_of. rewrite norm_set_In, filter_In, negb_true_iff, memn_false.
  rewrite (ancs_spec g _ x W). split; intros [H1 H2]; (split; [assumption|]).
  - intros [y [Hy [N Ha]]]. apply H2.
    apply anc_inv in Ha. destruct Ha as [->|[p [Hp Ha]]]; [congruence|].
    exists p. split; [|assumption]. apply in_flat_map. eauto.
  - intros [p [Hp Ha]]. apply in_flat_map in Hp. destruct Hp as [y [Hy Hp]].
    apply H2. exists y. split; [assumption|]. split.
    + intros ->. apply (anc_le g _ _ W) in Ha. apply W in Hp. lia.
    + eapply anc_trans; [eassumption|]. now apply anc_parent.
Qed.

(** Every candidate is below some head (finite sets of naturals have maximal elements
    with respect to ancestry). *)
Lemma heads_of_cover g S x : wf_dag g -> In x S ->
  exists h, In h (heads_of g S) /\ anc g x h.
Proof.
  intros W. remember (fold_right max 0 S - x) as k eqn:Ek.
  revert x Ek. induction k as [k IH] using lt_wf_ind. intros x Ek Hx.
  assert (Hmax : forall y, In y S -> y <= fold_right max 0 S).
  { clear. induction S as [|z t IHt]; intros y []; cbn [fold_right]; [subst; lia|].
    specialize (IHt y H). lia. }
  destruct (existsb (fun y => negb (y =? x) && ancb g x y) S) eqn:E.
  - apply existsb_exists in E. destruct E as [y [Hy E]].
    apply andb_true_iff in E. destruct E as [E1 E2].
    apply negb_true_iff, Nat.eqb_neq in E1. apply (ancb_spec g x y W) in E2.
    assert (x < y) by (pose proof (anc_le g x y W E2); lia).
    pose proof (Hmax y Hy). pose proof (Hmax x Hx).
    destruct (IH (fold_right max 0 S - y)) with (x := y) as [h [Hh Ha]]; [lia|reflexivity|assumption|].
    exists h. split; [assumption|]. eapply anc_trans; eassumption.
  - exists x. split; [|constructor]. apply heads_of_spec; [assumption|].
    split; [assumption|]. intros [y [Hy [N Ha]]].
    assert (existsb (fun y => negb (y =? x) && ancb g x y) S = true); [|congruence].
    apply existsb_exists. exists y. split; [assumption|].
    apply andb_true_iff. split.
    + apply negb_true_iff, Nat.eqb_neq. assumption.
    + now apply ancb_spec.
Qed.

(** [antichain g H]: no element is a strict ancestor of another. *)
Definition antichain (g : dag) (H : list nat) : Prop :=
  forall x y, In x H -> In y H -> anc g x y -> x = y.

Lemma heads_of_antichain g S : wf_dag g -> antichain g (heads_of g S).
Proof.
  intros W x y Hx Hy Ha. apply (heads_of_spec g S x W) in Hx. apply (heads_of_spec g S y W) in Hy.
  destruct Hx as [Hx1 Hx2]. destruct Hy as [Hy1 _].
  destruct (Nat.eq_dec x y) as [E|N]; [assumption|].
  exfalso. apply Hx2. exists y. repeat split; [assumption| congruence |assumption].
Qed.

(** Visibility from a set of heads, and its invariance under taking heads. *)
Definition covered (g : dag) (H : list nat) (x : nat) : Prop := exists h, In h H /\ anc g x h.

Lemma covered_heads_of g S x : wf_dag g -> (covered g (heads_of g S) x <-> covered g S x).
Proof.
  intros W. split; intros [h [Hh Ha]].
  - apply (heads_of_spec g S h W) in Hh. exists h. split; [apply Hh|assumption].
  - destruct (heads_of_cover g S h W Hh) as [h' [Hh' Ha']].
    exists h'. split; [assumption|]. eapply anc_trans; eassumption.
Qed.

Lemma covered_mono g H1 H2 x : (forall h, In h H1 -> In h H2) -> covered g H1 x -> covered g H2 x.
Proof. intros S [h [Hh Ha]]. exists h. split; [now apply S|assumption]. Qed.

Lemma covered_ancs g H x : wf_dag g -> (In x (ancs g H) <-> covered g H x).
Proof. intros W. apply ancs_spec. assumption. Qed.
