(** DagR — commit graphs in index order, position sets as bitmaps, generation-bounded
    ancestor / descendant closures, heads, roots.  Shared by C19 / C38 / C22.

    A graph is the list of parent-position lists in index order (position = insertion
    order = topological order): every parent position is strictly smaller than the
    position of the entry that names it ([wf_graph], the commit index's own invariant).
    A set of positions is a bitmap [bset = list bool]; every operation returns a bitmap of
    length [length G] built with [tab], so that two operations computing the same set
    return *equal* terms (Leibniz equality, no setoids). *)
From Verif Require Import Base.Prelude.
From Coq Require Import Lia Arith Sorted.
Import ListNotations.

(* ------------------------------------------------------------------ bitmaps *)

Definition bset := list bool.
Definition bmem (s : bset) (x : nat) : bool := nth x s false.
Definition tab (n : nat) (f : nat -> bool) : bset := map f (seq 0 n).

Definition bempty (n : nat) : bset := tab n (fun _ => false).
Definition bfull (n : nat) : bset := tab n (fun _ => true).
Definition bunion (n : nat) (a b : bset) : bset := tab n (fun x => bmem a x || bmem b x).
Definition binter (n : nat) (a b : bset) : bset := tab n (fun x => bmem a x && bmem b x).
Definition bdiff (n : nat) (a b : bset) : bset := tab n (fun x => bmem a x && negb (bmem b x)).
Definition bcompl (n : nat) (a : bset) : bset := tab n (fun x => negb (bmem a x)).
Definition memn (x : nat) (l : list nat) : bool := existsb (Nat.eqb x) l.
Definition bof_list (n : nat) (l : list nat) : bset := tab n (fun x => memn x l).
Definition bsingle (n : nat) (y : nat) : bset := tab n (fun x => Nat.eqb x y).
Definition bunion_all (n : nat) (l : list bset) : bset :=
  tab n (fun x => existsb (fun s => bmem s x) l).
Definition bis_empty (s : bset) : bool := negb (existsb (fun b => b) s).
(** Members in descending position order (the order revsets are listed in). *)
Definition blist (n : nat) (s : bset) : list nat := rev (filter (bmem s) (seq 0 n)).
Definition bcard (n : nat) (s : bset) : nat := length (filter (bmem s) (seq 0 n)).
Definition bsubset (n : nat) (a b : bset) : bool :=
  forallb (fun x => implb (bmem a x) (bmem b x)) (seq 0 n).

(* ------------------------------------------------------------------ graphs *)

Definition graph := list (list nat).
Definition parents (G : graph) (x : nat) : list nat := nth x G [].

Definition wf_graph (G : graph) : Prop :=
  forall x p, In p (parents G x) -> p < x.
Definition wf_graphb (G : graph) : bool :=
  forallb (fun x => forallb (fun p => Nat.ltb p x) (parents G x)) (seq 0 (length G)).

(** Rust [Range<u64>] / [Range<u32>] as (start, end) pairs of [N]. *)
Definition nrange := (N * N)%type.
Definition U32MAX : N := 4294967295.
Definition U64MAX : N := 18446744073709551615.
Definition GEN_FULL : nrange := (0, U64MAX)%N.
Definition PR_FULL : nrange := (0, U32MAX)%N.
Definition nrange_eqb (a b : nrange) : bool :=
  N.eqb (fst a) (fst b) && N.eqb (snd a) (snd b).

(** [filter_slice_by_range] (lib/src/default_index/rev_walk.rs:678): the sub-slice
    [start.min(len) .. end.min(len)] of a parent list.  (Rust panics when the clamped start
    exceeds the clamped end; here that gives the empty list — generators keep start <= end.) *)
Definition pslice (p : nrange) (l : list nat) : list nat :=
  let len := N.of_nat (length l) in
  let s := N.to_nat (N.min (fst p) len) in
  let e := N.to_nat (N.min (snd p) len) in
  firstn (e - s) (skipn s l).

(** One step along the parent edges selected by [p], from every member of [S]. *)
Definition pstep (G : graph) (p : nrange) (S : bset) : bset :=
  let n := length G in
  let pl := flat_map (fun x => if bmem S x then pslice p (parents G x) else []) (seq 0 n) in
  tab n (fun y => memn y pl).

(** One step along child edges: positions having a parent in [S]. *)
Definition cstep (G : graph) (S : bset) : bset :=
  tab (length G) (fun x => existsb (bmem S) (parents G x)).

Fixpoint levels (f : bset -> bset) (k : nat) (S : bset) : list bset :=
  match k with
  | O => []
  | Datatypes.S k' => S :: levels f k' (f S)
  end.

(** Generation window.  The engine converts a non-full [Range<u64>] to [Range<u32>] with the
    end clamped to [u32::MAX] (revset_engine.rs:745 [to_u32_generation_range]); path lengths
    are below the number of entries anyway. *)
Definition gen_is_full (g : nrange) : bool := nrange_eqb g GEN_FULL.
Definition gen_end (g : nrange) : N := if gen_is_full g then snd g else N.min (snd g) U32MAX.
Definition gen_lo (n : nat) (g : nrange) : nat := N.to_nat (N.min (fst g) (N.of_nat n)).
Definition gen_hi (n : nat) (g : nrange) : nat := N.to_nat (N.min (gen_end g) (N.of_nat n)).
Definition window {A} (lo hi : nat) (l : list A) : list A := firstn (hi - lo) (skipn lo l).

(** Positions reached from a member of [S] by exactly [k] steps along [p]-selected parent
    edges, for some [k] in the generation window [g]. *)
Definition gen_closure (n : nat) (f : bset -> bset) (g : nrange) (S : bset) : bset :=
  bunion_all n (window (gen_lo n g) (gen_hi n g) (levels f n (tab n (bmem S)))).
Definition anc_gen (G : graph) (p g : nrange) (S : bset) : bset :=
  gen_closure (length G) (pstep G p) g S.
Definition anc_full (G : graph) (S : bset) : bset := anc_gen G PR_FULL GEN_FULL S.

(** Positions from which a member of [R] is reached by exactly [k] (all-)parent steps, for
    some [k] in the window [g]. *)
Definition desc_gen (G : graph) (g : nrange) (R : bset) : bset :=
  gen_closure (length G) (cstep G) g R.
Definition desc_full (G : graph) (R : bset) : bset := desc_gen G GEN_FULL R.

Definition GEN_PROPER : nrange := (1, U64MAX)%N.
(** Members that are not a proper ancestor of a member. *)
Definition heads (G : graph) (S : bset) : bset :=
  bdiff (length G) S (anc_gen G PR_FULL GEN_PROPER S).
(** Members that are not a proper descendant of a member. *)
Definition roots (G : graph) (S : bset) : bset :=
  bdiff (length G) S (desc_gen G GEN_PROPER S).

(* ------------------------------------------------------------------ lemmas: bitmaps *)

Lemma tab_length n f : length (tab n f) = n.
Proof. unfold tab. now rewrite map_length, seq_length. Qed.

Lemma bmem_tab n f x : bmem (tab n f) x = if Nat.ltb x n then f x else false.
Proof.
  unfold bmem, tab. destruct (Nat.ltb_spec x n) as [H|H].
  - rewrite nth_indep with (d' := f 0) by (now rewrite map_length, seq_length).
    rewrite map_nth. now rewrite seq_nth.
  - apply nth_overflow. now rewrite map_length, seq_length.
Qed.

Lemma bmem_tab_lt n f x : x < n -> bmem (tab n f) x = f x.
Proof. intros H. rewrite bmem_tab. apply Nat.ltb_lt in H. now rewrite H. Qed.

Lemma bmem_tab_ge n f x : n <= x -> bmem (tab n f) x = false.
Proof. intros H. rewrite bmem_tab. apply Nat.ltb_ge in H. now rewrite H. Qed.

Lemma bmem_tab_true n f x : bmem (tab n f) x = true <-> x < n /\ f x = true.
Proof.
  rewrite bmem_tab. destruct (Nat.ltb_spec x n) as [H|H]; split.
  - tauto.
  - tauto.
  - discriminate.
  - intros [H1 _]. lia.
Qed.

Lemma tab_ext n f g : (forall x, x < n -> f x = g x) -> tab n f = tab n g.
Proof. intros H. unfold tab. apply map_ext_in. intros x Hx. apply in_seq in Hx. apply H. lia. Qed.

Lemma tab_eq_iff n f g : tab n f = tab n g <-> forall x, x < n -> f x = g x.
Proof.
  split; [|apply tab_ext]. intros H x Hx.
  rewrite <- (bmem_tab_lt n f x Hx), <- (bmem_tab_lt n g x Hx). now rewrite H.
Qed.

Lemma tab_bmem_id n s : length s = n -> tab n (bmem s) = s.
Proof.
  intros <-. apply nth_ext with (d := false) (d' := false).
  - apply tab_length.
  - rewrite tab_length. intros k Hk. apply (bmem_tab_lt _ (bmem s) k Hk).
Qed.

Lemma tab_tab n f : tab n (bmem (tab n f)) = tab n f.
Proof. apply tab_bmem_id, tab_length. Qed.

Lemma bset_ext n a b : length a = n -> length b = n ->
  (forall x, x < n -> bmem a x = bmem b x) -> a = b.
Proof.
  intros Ha Hb H. rewrite <- (tab_bmem_id n a Ha), <- (tab_bmem_id n b Hb). now apply tab_ext.
Qed.

Lemma memn_In x l : memn x l = true <-> In x l.
Proof.
  unfold memn. rewrite existsb_exists. split.
  - intros [y [Hy He]]. apply Nat.eqb_eq in He. now subst.
  - intros H. exists x. split; auto. apply Nat.eqb_refl.
Qed.

Lemma memn_false x l : memn x l = false <-> ~ In x l.
Proof. rewrite <- memn_In. destruct (memn x l); split; intros; try congruence; tauto. Qed.

Lemma bmem_bempty n x : bmem (bempty n) x = false.
Proof. unfold bempty. rewrite bmem_tab. now destruct (x <? n). Qed.

Lemma bmem_bunion n a b x : bmem (bunion n a b) x = (x <? n) && (bmem a x || bmem b x).
Proof. unfold bunion. rewrite bmem_tab. now destruct (x <? n). Qed.
Lemma bmem_binter n a b x : bmem (binter n a b) x = (x <? n) && (bmem a x && bmem b x).
Proof. unfold binter. rewrite bmem_tab. now destruct (x <? n). Qed.
Lemma bmem_bdiff n a b x : bmem (bdiff n a b) x = (x <? n) && (bmem a x && negb (bmem b x)).
Proof. unfold bdiff. rewrite bmem_tab. now destruct (x <? n). Qed.
Lemma bmem_bcompl n a x : bmem (bcompl n a) x = (x <? n) && negb (bmem a x).
Proof. unfold bcompl. rewrite bmem_tab. now destruct (x <? n). Qed.
Lemma bmem_bof_list n l x : bmem (bof_list n l) x = (x <? n) && memn x l.
Proof. unfold bof_list. rewrite bmem_tab. now destruct (x <? n). Qed.
Lemma bmem_bsingle n y x : bmem (bsingle n y) x = (x <? n) && (x =? y).
Proof. unfold bsingle. rewrite bmem_tab. now destruct (x <? n). Qed.
Lemma bmem_bunion_all n l x :
  bmem (bunion_all n l) x = (x <? n) && existsb (fun s => bmem s x) l.
Proof. unfold bunion_all. rewrite bmem_tab. now destruct (x <? n). Qed.

Lemma bmem_lt s x : bmem s x = true -> x < length s.
Proof.
  unfold bmem. intros H. destruct (Nat.lt_ge_cases x (length s)) as [|Hge]; auto.
  rewrite nth_overflow in H by assumption. discriminate.
Qed.

Lemma bis_empty_spec s : bis_empty s = true <-> forall x, bmem s x = false.
Proof.
  unfold bis_empty. rewrite negb_true_iff. split.
  - intros H x. destruct (bmem s x) eqn:E; auto.
    assert (existsb (fun b => b) s = true); [|congruence].
    apply existsb_exists. exists true. split; auto.
    unfold bmem in E. rewrite <- E. apply nth_In. now apply bmem_lt.
  - intros H. destruct (existsb (fun b => b) s) eqn:E; auto.
    apply existsb_exists in E. destruct E as [b [Hin Hb]]. subst b.
    apply In_nth with (d := false) in Hin. destruct Hin as [k [_ Hk]].
    specialize (H k). unfold bmem in H. congruence.
Qed.

Lemma blist_In n s x : In x (blist n s) <-> x < n /\ bmem s x = true.
Proof.
  unfold blist. rewrite <- in_rev, filter_In, in_seq. intuition lia.
Qed.

Lemma filter_seq_sorted f a n : StronglySorted lt (filter f (seq a n)).
Proof.
  revert a. induction n; intros a; simpl; [constructor|].
  destruct (f a).
  - constructor; auto. apply Forall_forall. intros y Hy. apply filter_In in Hy.
    destruct Hy as [Hy _]. apply in_seq in Hy. lia.
  - auto.
Qed.

Lemma StronglySorted_rev_lt l : StronglySorted lt l -> StronglySorted gt (rev l).
Proof.
  induction 1; simpl; [constructor|].
  assert (Hs : forall l1, StronglySorted gt l1 -> Forall (fun y => y > a) l1 ->
                          StronglySorted gt (l1 ++ [a])).
  { induction 1; intros Hall; simpl.
    - constructor; constructor.
    - inversion Hall; subst. constructor; auto.
      apply Forall_app; split; [assumption | repeat constructor; assumption]. }
  apply Hs; auto. apply Forall_forall. intros y Hy. apply in_rev in Hy.
  rewrite Forall_forall in H0. specialize (H0 y Hy). lia.
Qed.

(** The listing of a set is strictly descending, hence duplicate-free. *)
Lemma blist_sorted n s : StronglySorted gt (blist n s).
Proof. unfold blist. apply StronglySorted_rev_lt, filter_seq_sorted. Qed.

Lemma StronglySorted_gt_NoDup l : StronglySorted gt l -> NoDup l.
Proof.
  induction 1; constructor; auto. intros Hin. rewrite Forall_forall in H0.
  specialize (H0 a Hin). lia.
Qed.

(** Two strictly descending lists with the same members are equal. *)
Lemma sorted_gt_unique l1 : forall l2, StronglySorted gt l1 -> StronglySorted gt l2 ->
  (forall x, In x l1 <-> In x l2) -> l1 = l2.
Proof.
  induction l1 as [|a t IH]; intros [|b u] H1 H2 H.
  - reflexivity.
  - exfalso. apply (proj2 (H b)). now left.
  - exfalso. apply (proj1 (H a)). now left.
  - inversion H1 as [|? ? Ht Ha]; subst. inversion H2 as [|? ? Hu Hb]; subst.
    rewrite Forall_forall in Ha, Hb.
    assert (a = b).
    { destruct (proj1 (H a) (or_introl eq_refl)) as [->|Hin]; auto.
      destruct (proj2 (H b) (or_introl eq_refl)) as [->|Hin2]; auto.
      specialize (Ha _ Hin2). specialize (Hb _ Hin). lia. }
    subst b. f_equal. apply IH; auto. intros x. split; intros Hx.
    + destruct (proj1 (H x) (or_intror Hx)) as [->|]; auto. specialize (Ha _ Hx). lia.
    + destruct (proj2 (H x) (or_intror Hx)) as [->|]; auto. specialize (Hb _ Hx). lia.
Qed.

Lemma In_firstn_l {A} n : forall (l : list A) x, In x (firstn n l) -> In x l.
Proof. induction n; intros [|a l] x H; simpl in *; try tauto. destruct H; auto. Qed.
Lemma In_skipn_l {A} n : forall (l : list A) x, In x (skipn n l) -> In x l.
Proof. induction n; intros [|a l] x H; simpl in *; try tauto. right. auto. Qed.
Lemma nth_skipn_l {A} n : forall (l : list A) i d, nth i (skipn n l) d = nth (n + i) l d.
Proof. induction n; intros [|a l] i d; simpl; auto. destruct i; auto. Qed.
Lemma nth_firstn_l {A} n : forall (l : list A) i d, i < n -> nth i (firstn n l) d = nth i l d.
Proof.
  induction n; intros l i d H; [lia|]. destruct l, i; simpl; auto. apply IHn. lia.
Qed.

(* ------------------------------------------------------------------ lemmas: graphs *)

Lemma wf_graphb_spec G : wf_graphb G = true <-> wf_graph G.
Proof.
  unfold wf_graphb, wf_graph. rewrite forallb_forall. split.
  - intros H x p Hp. destruct (Nat.lt_ge_cases x (length G)) as [Hx|Hx].
    + specialize (H x (proj2 (in_seq _ _ _) (conj (Nat.le_0_l _) Hx))).
      rewrite forallb_forall in H. now apply Nat.ltb_lt, H.
    + unfold parents in Hp. rewrite nth_overflow in Hp by assumption. destruct Hp.
  - intros H x _. apply forallb_forall. intros p Hp. apply Nat.ltb_lt. eauto.
Qed.

Lemma parents_overflow G x : length G <= x -> parents G x = [].
Proof. intros H. unfold parents. now apply nth_overflow. Qed.

Lemma pslice_incl p l x : In x (pslice p l) -> In x l.
Proof. unfold pslice. intros H. apply In_firstn_l in H. now apply In_skipn_l in H. Qed.

(** [PR_FULL] selects every parent as long as the parent list has at most [u32::MAX]
    entries (the index stores the parent count in 32 bits). *)
Definition pc_ok (G : graph) : Prop :=
  forall x, (N.of_nat (length (parents G x)) <= U32MAX)%N.
Definition pc_okb (G : graph) : bool :=
  forallb (fun l => (N.of_nat (length l) <=? U32MAX)%N) G.

Lemma pc_okb_spec G : pc_okb G = true -> pc_ok G.
Proof.
  unfold pc_okb, pc_ok. rewrite forallb_forall. intros H x.
  destruct (Nat.lt_ge_cases x (length G)) as [Hx|Hx].
  - apply N.leb_le, H. unfold parents. now apply nth_In.
  - rewrite parents_overflow by assumption. cbn. unfold U32MAX. lia.
Qed.

Lemma pslice_full l : (N.of_nat (length l) <= U32MAX)%N -> pslice PR_FULL l = l.
Proof.
  intros Hl. unfold pslice, PR_FULL. cbn [fst snd].
  rewrite (N.min_l 0) by lia. rewrite N.min_r by assumption.
  cbn [N.to_nat skipn]. rewrite Nat.sub_0_r, Nat2N.id. apply firstn_all.
Qed.

(** Edge functions: [edges G p x] are the parents of [x] selected by the parents range. *)
Definition edges (G : graph) (p : nrange) (x : nat) : list nat := pslice p (parents G x).

Lemma edges_full G x : pc_ok G -> edges G PR_FULL x = parents G x.
Proof. intros H. apply pslice_full, H. Qed.

(** [rpath R k x y]: a path of exactly [k] [R]-steps from [x] to [y]. *)
Inductive rpath (R : nat -> nat -> Prop) : nat -> nat -> nat -> Prop :=
| rpath_0 x : rpath R 0 x x
| rpath_S k x q y : R x q -> rpath R k q y -> rpath R (S k) x y.

(** [reach E k x y]: [y] is reached from [x] by exactly [k] steps along the edges [E]. *)
Notation reach E := (rpath (fun a b => In b (E a))).

Lemma rpath_snoc R k x y z : rpath R k x y -> R y z -> rpath R (S k) x z.
Proof.
  induction 1; intros Hz.
  - econstructor; eauto. constructor.
  - econstructor; eauto.
Qed.

Lemma rpath_app R k1 x y : rpath R k1 x y ->
  forall k2 z, rpath R k2 y z -> rpath R (k1 + k2) x z.
Proof. induction 1; intros k2 z Hz; simpl; auto. econstructor; eauto. Qed.

Lemma rpath_split R k1 : forall k2 x z, rpath R (k1 + k2) x z ->
  exists y, rpath R k1 x y /\ rpath R k2 y z.
Proof.
  induction k1; intros k2 x z H; simpl in *.
  - exists x. split; auto. constructor.
  - inversion H as [|? ? q ? Hq Hr]; subst. destruct (IHk1 _ _ _ Hr) as [y [Ha Hb]].
    exists y. split; auto. econstructor; eauto.
Qed.

Lemma rpath_last R k : forall x z, rpath R (S k) x z ->
  exists y, rpath R k x y /\ R y z.
Proof.
  intros x z H. replace (S k) with (k + 1) in H by lia.
  apply rpath_split in H. destruct H as [y [Ha Hb]]. exists y. split; auto.
  inversion Hb as [|? ? q ? Hq Hr]; subst. inversion Hr; subst. assumption.
Qed.

Lemma rpath_mono (R R' : nat -> nat -> Prop) : (forall x q, R x q -> R' x q) ->
  forall k x y, rpath R k x y -> rpath R' k x y.
Proof. intros H. induction 1; econstructor; eauto. Qed.

(** Reversal: a path along [R] from [x] to [y] is a path along the converse from [y] to [x]. *)
Lemma rpath_rev R k x y : rpath R k x y -> rpath (fun a b => R b a) k y x.
Proof.
  induction 1; [constructor|]. eapply rpath_snoc; eauto.
Qed.

Definition wfE (E : nat -> list nat) : Prop := forall x q, In q (E x) -> q < x.

Lemma wfE_edges G p : wf_graph G -> wfE (edges G p).
Proof. intros W x q H. apply pslice_incl in H. now apply W. Qed.
Lemma wfE_parents G : wf_graph G -> wfE (parents G).
Proof. intros W x q H. now apply W. Qed.

Lemma reach_le E : wfE E -> forall k x y, reach E k x y -> y + k <= x.
Proof. intros W. induction 1; [lia|]. apply W in H. lia. Qed.

Lemma reach_ext (E E' : nat -> list nat) : (forall x, E x = E' x) ->
  forall k x y, reach E k x y <-> reach E' k x y.
Proof.
  intros H k x y. split; apply rpath_mono; intros a q; cbv beta;
    [rewrite <- H|rewrite H]; auto.
Qed.

(** Membership in a generation window. *)
Definition in_gen (g : nrange) (k : nat) : Prop :=
  (fst g <= N.of_nat k)%N /\ (N.of_nat k < gen_end g)%N.

Lemma in_gen_window n g k : k < n -> (gen_lo n g <= k < gen_hi n g <-> in_gen g k).
Proof. intros Hk. unfold gen_lo, gen_hi, in_gen. lia. Qed.

Lemma nth_levels f : forall k n S, k < n -> nth k (levels f n S) [] = Nat.iter k f S.
Proof.
  induction k; intros n S Hk; destruct n; try lia; simpl.
  - reflexivity.
  - rewrite IHk by lia. clear. induction k; simpl; auto. now rewrite IHk.
Qed.

Lemma levels_length f : forall n S, length (levels f n S) = n.
Proof. induction n; intros; simpl; auto. Qed.

Lemma In_window {A} lo hi (l : list A) (d : A) x :
  In x (window lo hi l) <-> exists k, lo <= k < hi /\ k < length l /\ nth k l d = x.
Proof.
  unfold window. split.
  - intros H. apply In_nth with (d := d) in H. destruct H as [j [Hj Hx]].
    rewrite firstn_length, skipn_length in Hj.
    rewrite nth_firstn_l in Hx by lia.
    rewrite nth_skipn_l in Hx. exists (lo + j). repeat split; try lia. assumption.
  - intros [k [Hk [Hl Hx]]]. subst x.
    replace k with (lo + (k - lo)) by lia. rewrite <- nth_skipn_l.
    rewrite <- (nth_firstn_l (hi - lo)) by lia.
    apply nth_In. rewrite firstn_length, skipn_length. lia.
Qed.

(** Generic closure: [f] is the set-level image of a step relation [R]. *)
Section Closure.
  Variable n : nat.
  Variable f : bset -> bset.
  Variable R : nat -> nat -> Prop.
  Hypothesis f_spec : forall S y,
    bmem (f S) y = true <-> y < n /\ exists x, x < n /\ bmem S x = true /\ R x y.
  Hypothesis R_range : forall x y, x < n -> R x y -> y < n.
  (** paths between in-range positions are shorter than [n] (the graph is acyclic) *)
  Hypothesis R_bound : forall k x y, x < n -> rpath R k x y -> k < n.

  Lemma rpath_range k x y : x < n -> rpath R k x y -> y < n.
  Proof. intros Hx H. induction H; eauto. Qed.

  Lemma iter_spec k : forall S y,
    bmem (Nat.iter k f (tab n (bmem S))) y = true <->
    y < n /\ exists x, x < n /\ bmem S x = true /\ rpath R k x y.
  Proof.
    induction k; intros S y; simpl.
    - rewrite bmem_tab_true. split.
      + intros [Hy Hm]. split; auto. exists y. repeat split; auto. constructor.
      + intros [Hy [x [Hx [Hm Hp]]]]. inversion Hp; subst. auto.
    - rewrite f_spec. split.
      + intros [Hy [x [Hx [Hm HR]]]]. split; auto.
        apply IHk in Hm. destruct Hm as [_ [x0 [Hx0 [Hm0 Hp]]]].
        exists x0. repeat split; auto. eapply rpath_snoc; eauto.
      + intros [Hy [x [Hx [Hm Hp]]]]. split; auto.
        apply rpath_last in Hp. destruct Hp as [z [Hp Hz]].
        assert (Hzn : z < n) by (eapply rpath_range; eauto).
        exists z. repeat split; auto. apply IHk. split; auto. exists x. auto.
  Qed.

  Lemma gen_closure_spec g S y :
    bmem (gen_closure n f g S) y = true <->
    y < n /\ exists k x, in_gen g k /\ x < n /\ bmem S x = true /\ rpath R k x y.
  Proof.
    unfold gen_closure. rewrite bmem_bunion_all, andb_true_iff, Nat.ltb_lt, existsb_exists.
    split.
    - intros [Hy [s [Hin Hm]]]. split; auto.
      apply (In_window _ _ _ []) in Hin. destruct Hin as [k [Hk [Hl Hs]]].
      rewrite levels_length in Hl. rewrite nth_levels in Hs by assumption. subst s.
      apply iter_spec in Hm. destruct Hm as [_ [x [Hx [Hm Hp]]]].
      exists k, x. repeat split; auto; apply in_gen_window in Hk; auto; apply Hk.
    - intros [Hy [k [x [Hg [Hx [Hm Hp]]]]]]. split; auto.
      assert (Hk : k < n) by (eapply R_bound; eauto).
      exists (Nat.iter k f (tab n (bmem S))). split.
      + apply (In_window _ _ _ []). exists k. rewrite levels_length.
        repeat split; auto; try (apply in_gen_window; auto).
        apply nth_levels; auto.
      + apply iter_spec. split; auto. exists x. auto.
  Qed.
End Closure.

Lemma pstep_spec G p S y :
  bmem (pstep G p S) y = true <->
  y < length G /\ exists x, x < length G /\ bmem S x = true /\ In y (edges G p x).
Proof.
  unfold pstep. rewrite bmem_tab_true, memn_In, in_flat_map. split.
  - intros [Hy [x [Hx Hin]]]. split; auto. apply in_seq in Hx.
    destruct (bmem S x) eqn:E; [|destruct Hin]. exists x. repeat split; auto. lia.
  - intros [Hy [x [Hx [Hm Hin]]]]. split; auto. exists x. split.
    + apply in_seq. lia.
    + rewrite Hm. exact Hin.
Qed.

Lemma cstep_spec G S y : wf_graph G ->
  (bmem (cstep G S) y = true <->
   y < length G /\ exists x, x < length G /\ bmem S x = true /\ In x (parents G y)).
Proof.
  intros W. unfold cstep. rewrite bmem_tab_true, existsb_exists. split.
  - intros [Hy [x [Hin Hm]]]. split; auto. exists x. repeat split; auto.
    apply W in Hin. lia.
  - intros [Hy [x [Hx [Hm Hin]]]]. split; auto. exists x. auto.
Qed.

(** [y] is a [k]-th ancestor of a member of [S] along [p]-selected parents, [k] in [g]. *)
Lemma anc_gen_spec G p g S y : wf_graph G ->
  (bmem (anc_gen G p g S) y = true <->
   exists k x, in_gen g k /\ x < length G /\ bmem S x = true /\ reach (edges G p) k x y).
Proof.
  intros W. unfold anc_gen.
  rewrite (gen_closure_spec (length G) (pstep G p) (fun a b => In b (edges G p a))).
  - split.
    + intros [_ H]. exact H.
    + intros [k [x [Hg [Hx [Hm Hp]]]]]. split; [|eauto 8].
      apply (reach_le _ (wfE_edges G p W)) in Hp. lia.
  - intros S0 y0. apply pstep_spec.
  - intros x0 y0 Hx H. apply (wfE_edges G p W) in H. lia.
  - intros k x0 y0 Hx H. apply (reach_le _ (wfE_edges G p W)) in H. lia.
Qed.

(** [x] has a member of [R] as [k]-th ancestor (all parents), [k] in [g]. *)
Lemma desc_gen_spec G g R x : wf_graph G ->
  (bmem (desc_gen G g R) x = true <->
   x < length G /\ exists k r, in_gen g k /\ bmem R r = true /\ reach (parents G) k x r).
Proof.
  intros W. unfold desc_gen.
  rewrite (gen_closure_spec (length G) (cstep G) (fun a b => In a (parents G b))).
  - split.
    + intros [Hx [k [r [Hg [Hr [Hm Hp]]]]]]. split; auto. exists k, r.
      apply rpath_rev in Hp. split; [exact Hg|]. split; [exact Hm|]. exact Hp.
    + intros [Hx [k [r [Hg [Hm Hp]]]]]. split; auto. exists k, r.
      assert (Hle := reach_le _ (wfE_parents G W) _ _ _ Hp).
      apply rpath_rev in Hp. split; [exact Hg|]. split; [lia|]. split; [exact Hm|]. exact Hp.
  - intros S0 y0. apply cstep_spec, W.
  - intros x0 y0 Hx H. destruct (Nat.lt_ge_cases y0 (length G)); auto.
    rewrite parents_overflow in H by assumption. destruct H.
  - intros k x0 y0 Hx H. apply rpath_rev in H. cbv beta in H.
    assert (Hle := reach_le _ (wfE_parents G W) _ _ _ H).
    assert (y0 < length G); [|lia].
    clear Hle. revert Hx. clear -H. intros Hx.
    inversion H as [|? ? q ? Hq Hr]; subst; auto.
    destruct (Nat.lt_ge_cases y0 (length G)); auto.
    rewrite parents_overflow in Hq by assumption. destruct Hq.
Qed.

(* ------------------------------------------------------------------ set-level facts *)

Lemma bool_eq_iff (a b : bool) : (a = true <-> b = true) -> a = b.
Proof.
  destruct a, b; intros [H1 H2]; auto;
    try (symmetry; apply H1; reflexivity); try (apply H2; reflexivity).
Qed.

Lemma bset_eq n a b : length a = n -> length b = n ->
  (forall x, bmem a x = true <-> bmem b x = true) -> a = b.
Proof. intros Ha Hb H. apply (bset_ext n); auto. intros x _. apply bool_eq_iff, H. Qed.

Lemma gen_closure_length n f g S : length (gen_closure n f g S) = n.
Proof. apply tab_length. Qed.
Lemma anc_gen_length G p g S : length (anc_gen G p g S) = length G.
Proof. apply tab_length. Qed.
Lemma desc_gen_length G g S : length (desc_gen G g S) = length G.
Proof. apply tab_length. Qed.
Lemma heads_length G S : length (heads G S) = length G.
Proof. apply tab_length. Qed.
Lemma roots_length G S : length (roots G S) = length G.
Proof. apply tab_length. Qed.

(** The closures only look at the members below [length G]. *)
Lemma gen_closure_ext n f g S T :
  (forall x, x < n -> bmem S x = bmem T x) -> gen_closure n f g S = gen_closure n f g T.
Proof. intros H. unfold gen_closure. now rewrite (tab_ext n (bmem S) (bmem T) H). Qed.
Lemma anc_gen_ext G p g S T :
  (forall x, x < length G -> bmem S x = bmem T x) -> anc_gen G p g S = anc_gen G p g T.
Proof. apply gen_closure_ext. Qed.
Lemma desc_gen_ext G g S T :
  (forall x, x < length G -> bmem S x = bmem T x) -> desc_gen G g S = desc_gen G g T.
Proof. apply gen_closure_ext. Qed.

(** Graphs whose positions fit the index's 32-bit position type. *)
Definition small (G : graph) : Prop := (N.of_nat (length G) <= U32MAX)%N.

Lemma in_gen_full G k : small G -> k < length G -> in_gen GEN_FULL k.
Proof. unfold small, in_gen, GEN_FULL, gen_end, U32MAX, U64MAX. cbn. lia. Qed.

Lemma in_gen_proper G k : small G -> k < length G -> (in_gen GEN_PROPER k <-> 1 <= k).
Proof. unfold small, in_gen, GEN_PROPER, gen_end, U32MAX, U64MAX. cbn. lia. Qed.

Section Anc.
  Variable G : graph.
  Hypothesis W : wf_graph G.
  Hypothesis Hpc : pc_ok G.
  Hypothesis Hsm : small G.
  Let n := length G.

  Lemma reach_full_parents k x y : reach (edges G PR_FULL) k x y <-> reach (parents G) k x y.
  Proof. apply reach_ext. intros a. now apply edges_full. Qed.

  Lemma reach_edges_parents p k x y : reach (edges G p) k x y -> reach (parents G) k x y.
  Proof. apply rpath_mono. intros a q. apply pslice_incl. Qed.

  (** [y] is an ancestor (any number of steps, all parents) of a member of [S]. *)
  Lemma anc_full_spec S y :
    bmem (anc_full G S) y = true <->
    exists k x, x < n /\ bmem S x = true /\ reach (parents G) k x y.
  Proof.
    unfold anc_full. rewrite anc_gen_spec by assumption. split.
    - intros [k [x [_ [Hx [Hm Hp]]]]]. exists k, x. repeat split; auto.
      now apply reach_full_parents.
    - intros [k [x [Hx [Hm Hp]]]]. exists k, x.
      assert (Hle := reach_le _ (wfE_parents G W) _ _ _ Hp).
      split; [apply (in_gen_full G); auto; fold n; lia|].
      repeat split; auto. now apply reach_full_parents.
  Qed.

  Lemma anc_gen_sub_full p g S y :
    bmem (anc_gen G p g S) y = true -> bmem (anc_full G S) y = true.
  Proof.
    rewrite anc_gen_spec, anc_full_spec by assumption.
    intros [k [x [_ [Hx [Hm Hp]]]]]. exists k, x. repeat split; auto.
    now apply (reach_edges_parents p).
  Qed.

  Lemma anc_full_incl S x : x < n -> bmem S x = true -> bmem (anc_full G S) x = true.
  Proof. intros Hx Hm. apply anc_full_spec. exists 0, x. repeat split; auto. constructor. Qed.

  Lemma anc_full_mono S T :
    (forall x, x < n -> bmem S x = true -> bmem T x = true) ->
    forall y, bmem (anc_full G S) y = true -> bmem (anc_full G T) y = true.
  Proof.
    intros H y. rewrite !anc_full_spec. intros [k [x [Hx [Hm Hp]]]]. exists k, x. auto.
  Qed.

  (** Ancestor sets are closed under ancestors. *)
  Lemma anc_full_closed S T :
    (forall x, x < n -> bmem S x = true -> bmem (anc_full G T) x = true) ->
    forall y, bmem (anc_full G S) y = true -> bmem (anc_full G T) y = true.
  Proof.
    intros H y. rewrite anc_full_spec. intros [k [x [Hx [Hm Hp]]]].
    specialize (H x Hx Hm). apply anc_full_spec in H. destruct H as [k' [x' [Hx' [Hm' Hp']]]].
    apply anc_full_spec. exists (k' + k), x'. repeat split; auto.
    eapply rpath_app; eauto.
  Qed.

  Lemma anc_full_lt S y : bmem (anc_full G S) y = true -> y < n.
  Proof. intros H. apply bmem_lt in H. unfold anc_full in H. now rewrite anc_gen_length in H. Qed.

  Lemma heads_sub S x : bmem (heads G S) x = true -> bmem S x = true.
  Proof.
    unfold heads. rewrite bmem_bdiff, !andb_true_iff. tauto.
  Qed.
  Lemma roots_sub S x : bmem (roots G S) x = true -> bmem S x = true.
  Proof.
    unfold roots. rewrite bmem_bdiff, !andb_true_iff. tauto.
  Qed.

  (** Heads: members that are not a proper ancestor of another member. *)
  Lemma heads_spec S x :
    bmem (heads G S) x = true <->
    x < n /\ bmem S x = true /\
    ~ exists k y, 1 <= k /\ y < n /\ bmem S y = true /\ reach (parents G) k y x.
  Proof.
    unfold heads. rewrite bmem_bdiff, !andb_true_iff, Nat.ltb_lt, negb_true_iff.
    split.
    - intros [Hx [Hm Hn]]. repeat split; auto. intros [k [y [Hk [Hy [Hmy Hp]]]]].
      assert (bmem (anc_gen G PR_FULL GEN_PROPER S) x = true); [|congruence].
      apply anc_gen_spec; auto. exists k, y.
      assert (Hle := reach_le _ (wfE_parents G W) _ _ _ Hp).
      split; [apply (in_gen_proper G); auto; fold n; lia|].
      repeat split; auto. now apply reach_full_parents.
    - intros [Hx [Hm Hn]]. repeat split; auto.
      destruct (bmem (anc_gen G PR_FULL GEN_PROPER S) x) eqn:E; auto.
      exfalso. apply Hn. apply anc_gen_spec in E; auto.
      destruct E as [k [y [Hg [Hy [Hmy Hp]]]]].
      assert (Hle := reach_le _ (wfE_edges G PR_FULL W) _ _ _ Hp).
      exists k, y. split.
      + apply (in_gen_proper G) in Hg; auto. fold n. lia.
      + repeat split; auto. now apply reach_full_parents.
  Qed.

  (** Roots: members that have no other member as a proper ancestor. *)
  Lemma roots_spec S x :
    bmem (roots G S) x = true <->
    x < n /\ bmem S x = true /\
    ~ exists k r, 1 <= k /\ bmem S r = true /\ reach (parents G) k x r.
  Proof.
    unfold roots. rewrite bmem_bdiff, !andb_true_iff, Nat.ltb_lt, negb_true_iff.
    split.
    - intros [Hx [Hm Hn]]. repeat split; auto. intros [k [r [Hk [Hmr Hp]]]].
      assert (bmem (desc_gen G GEN_PROPER S) x = true); [|congruence].
      apply desc_gen_spec; auto. split; auto. exists k, r.
      assert (Hle := reach_le _ (wfE_parents G W) _ _ _ Hp).
      split; [apply (in_gen_proper G); auto; fold n; lia|]. auto.
    - intros [Hx [Hm Hn]]. repeat split; auto.
      destruct (bmem (desc_gen G GEN_PROPER S) x) eqn:E; auto.
      exfalso. apply Hn. apply desc_gen_spec in E; auto.
      destruct E as [_ [k [r [Hg [Hmr Hp]]]]].
      assert (Hle := reach_le _ (wfE_parents G W) _ _ _ Hp).
      exists k, r. split; auto.
      apply (in_gen_proper G) in Hg; auto. fold n. lia.
  Qed.
End Anc.
