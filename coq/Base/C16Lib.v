(** Executable helpers shared by the codec models (C16, C17): lexicographic order on byte
    strings (= Rust's [Ord] on [Vec<u8>], [String], [str]), sorted association lists as
    [BTreeMap]s / sorted lists as [HashSet]s in canonical form, little-endian fixed-width
    integers, a three-way result type, and prefix-decodable codecs.
    Definitions only; the lemmas are in Proofs/C16Lib.v. *)
From Verif Require Import Base.Prelude.
Local Open Scope N_scope.

(** * Result of a decoder that may return an error or hit a Rust panic. *)
Inductive res (E A : Type) : Type :=
| Ok (a : A)
| Err (e : E)
| Panic.
Arguments Ok {E A} a.
Arguments Err {E A} e.
Arguments Panic {E A}.

Definition rbind {E A B} (x : res E A) (f : A -> res E B) : res E B :=
  match x with
  | Ok a => f a
  | Err e => Err e
  | Panic => Panic
  end.

(** [iter.map(f).collect::<Result<_,_>>()]: elements in order, first failure wins. *)
Fixpoint rmapM {E A B} (f : A -> res E B) (l : list A) : res E (list B) :=
  match l with
  | [] => Ok []
  | x :: t => rbind (f x) (fun y => rbind (rmapM f t) (fun ys => Ok (y :: ys)))
  end.

Definition res_eqb {E A} (ee : E -> E -> bool) (ea : A -> A -> bool) (x y : res E A) : bool :=
  match x, y with
  | Ok a, Ok b => ea a b
  | Err e, Err f => ee e f
  | Panic, Panic => true
  | _, _ => false
  end.

(** * Lexicographic order on byte strings. *)
Fixpoint bytes_ltb (a b : bytes) : bool :=
  match a, b with
  | [], [] => false
  | [], _ :: _ => true
  | _ :: _, [] => false
  | x :: a', y :: b' =>
      if x <? y then true else if y <? x then false else bytes_ltb a' b'
  end.

Fixpoint strict_sortedb (l : list bytes) : bool :=
  match l with
  | [] => true
  | x :: t => match t with
              | [] => true
              | y :: _ => bytes_ltb x y && strict_sortedb t
              end
  end.

Definition keys_sortedb {V} (m : list (bytes * V)) : bool := strict_sortedb (map fst m).

(** * [BTreeMap<K, V>] with byte-string keys: association list in strictly ascending key
    order. [map_insert] is [BTreeMap::insert] (replaces on an equal key). *)
Fixpoint map_insert {V} (k : bytes) (v : V) (m : list (bytes * V)) : list (bytes * V) :=
  match m with
  | [] => [(k, v)]
  | (k', v') :: t =>
      if bytes_ltb k k' then (k, v) :: m
      else if bytes_ltb k' k then (k', v') :: map_insert k v t
      else (k, v) :: t
  end.

(** [iter.collect::<BTreeMap<_,_>>()] / repeated [insert]: later entries win. *)
Definition map_of_list {V} (l : list (bytes * V)) : list (bytes * V) :=
  fold_left (fun m kv => map_insert (fst kv) (snd kv) m) l [].

Fixpoint map_lookup {V} (k : bytes) (m : list (bytes * V)) : option V :=
  match m with
  | [] => None
  | (k', v) :: t => if bytes_eqb k k' then Some v else map_lookup k t
  end.

(** [HashSet<K>] in canonical form: strictly ascending list. *)
Definition set_of_list (l : list bytes) : list bytes :=
  map fst (map_of_list (map (fun k => (k, tt)) l)).

(** * Little-endian fixed-width integers. *)
Fixpoint le_bytes (n : nat) (x : N) : bytes :=
  match n with
  | O => []
  | S n' => (x mod 256) :: le_bytes n' (x / 256)
  end.

Fixpoint le_value (l : bytes) : N :=
  match l with
  | [] => 0
  | b :: t => b + 256 * le_value t
  end.

(** Two's complement of a signed integer on [n] bytes. *)
Definition le_signed (n : nat) (z : Z) : bytes :=
  le_bytes n (Z.to_N (z mod 2 ^ (8 * Z.of_nat n))%Z).

Definition signed_value (n : nat) (l : bytes) : Z :=
  let u := Z.of_N (le_value l) in
  (if u <? 2 ^ (8 * Z.of_nat n - 1) then u else u - 2 ^ (8 * Z.of_nat n))%Z.

Definition take (n : nat) (l : bytes) : option (bytes * bytes) :=
  if (n <=? length l)%nat then Some (firstn n l, skipn n l) else None.

Definition byteb (b : N) : bool := b <? 256.
Definition bytes_okb (l : bytes) : bool := forallb byteb l.

(** * Codecs: an encoder, a decoder of a prefix, and the domain on which the decoder
    inverts the encoder ([codec_ok] in Proofs/C16Lib.v). *)
Record codec (A : Type) : Type := mk_codec {
  enc : A -> bytes;
  dec : bytes -> option (A * bytes);
  cwf : A -> Prop;
}.
Arguments mk_codec {A} _ _ _.
Arguments enc {A} _ _.
Arguments dec {A} _ _.
Arguments cwf {A} _ _.

Definition c_unsigned (n : nat) : codec N :=
  mk_codec (le_bytes n)
           (fun l => match take n l with
                     | Some (h, r) => Some (le_value h, r)
                     | None => None
                     end)
           (fun x => x < 256 ^ N.of_nat n).

Definition c_signed (n : nat) : codec Z :=
  mk_codec (le_signed n)
           (fun l => match take n l with
                     | Some (h, r) => Some (signed_value n h, r)
                     | None => None
                     end)
           (fun z => (- 2 ^ (8 * Z.of_nat n - 1) <= z < 2 ^ (8 * Z.of_nat n - 1))%Z).

(** [u8::from(bool)] *)
Definition c_bool : codec bool :=
  mk_codec (fun b : bool => [if b then 1 else 0])
           (fun l : bytes => match l with
                     | 0 :: r => Some (false, r)
                     | 1 :: r => Some (true, r)
                     | _ => None
                     end)
           (fun _ => True).

(** [Vec<u8>], [String], [str]: u64-LE length, then the bytes. *)
Definition c_bytes : codec bytes :=
  mk_codec (fun b => le_bytes 8 (N.of_nat (length b)) ++ b)
           (fun l => match take 8 l with
                     | Some (h, r) => take (N.to_nat (le_value h)) r
                     | None => None
                     end)
           (fun b => Forall (fun x => x < 256) b /\ N.of_nat (length b) < 2 ^ 64).

Definition c_pair {A B} (ca : codec A) (cb : codec B) : codec (A * B) :=
  mk_codec (fun p => enc ca (fst p) ++ enc cb (snd p))
           (fun l => match dec ca l with
                     | Some (a, r) => match dec cb r with
                                      | Some (b, r') => Some ((a, b), r')
                                      | None => None
                                      end
                     | None => None
                     end)
           (fun p => cwf ca (fst p) /\ cwf cb (snd p)).

Fixpoint dec_n {A} (c : codec A) (n : nat) (l : bytes) : option (list A * bytes) :=
  match n with
  | O => Some ([], l)
  | S n' => match dec c l with
            | Some (a, r) => match dec_n c n' r with
                             | Some (t, r') => Some (a :: t, r')
                             | None => None
                             end
            | None => None
            end
  end.

(** Slices, [Vec<T>], maps and sets (already in iteration order): u64-LE length, then the
    elements. *)
Definition c_list {A} (c : codec A) : codec (list A) :=
  mk_codec (fun l => le_bytes 8 (N.of_nat (length l)) ++ flat_map (enc c) l)
           (fun l => match take 8 l with
                     | Some (h, r) => dec_n c (N.to_nat (le_value h)) r
                     | None => None
                     end)
           (fun l => Forall (cwf c) l /\ N.of_nat (length l) < 2 ^ 64).

(** [Option<T>]: u32-LE 0, or u32-LE 1 then the value. *)
Definition c_option {A} (c : codec A) : codec (option A) :=
  mk_codec (fun o => match o with
                     | None => le_bytes 4 0
                     | Some x => le_bytes 4 1 ++ enc c x
                     end)
           (fun l => match take 4 l with
                     | Some (h, r) =>
                         if le_value h =? 0 then Some (None, r)
                         else if le_value h =? 1 then
                                match dec c r with
                                | Some (x, r') => Some (Some x, r')
                                | None => None
                                end
                              else None
                     | None => None
                     end)
           (fun o => match o with None => True | Some x => cwf c x end).

(** A struct seen through an isomorphism with a tuple of its fields (in declared order). *)
Definition c_iso {A B} (f : A -> B) (g : B -> A) (c : codec B) : codec A :=
  mk_codec (fun a => enc c (f a))
           (fun l => match dec c l with
                     | Some (b, r) => Some (g b, r)
                     | None => None
                     end)
           (fun a => cwf c (f a)).
