(** Checkout-side file-system model (C24, C25, C27). Definitions only; lemmas are in
    Proofs/FsC.v.

    The disk below the workspace root is a finite map from paths (lists of component
    names, relative to the root; the root itself is [[]] and is always a directory) to
    entries: regular file (bytes, exec bit), symbolic link (target, never followed) or
    directory. The primitives are the calls lib/src/local_working_copy.rs issues during a
    checkout, with the error behaviour that code relies on:
      create_dir     ok if nothing is there; AlreadyExists otherwise
      create_new     O_EXCL: fails if anything exists at the path, never follows a link
      remove_file    removes a file or a link; IsADirectory on a directory; NotFound
      remove_dir     fails if not empty / not a directory / missing
      symlink        fails if anything exists at the path
      lstat          (symlink_metadata) type of the entry itself
    A primitive is only *defined* when every proper prefix of its path is a real directory
    of this map ([safe]): the operating system would otherwise resolve the path through a
    symbolic link (possibly out of the workspace) or fail with ENOTDIR/ENOENT. Every
    primitive logs an event carrying that safety bit; an unsafe call returns [PUnsafe] and
    the caller gives up with the error [EEscape]. C25_no_symlink_escape proves that the
    checkout never issues an unsafe call. *)
From Verif Require Import Base.Prelude.
Local Open Scope string_scope.
Local Open Scope list_scope.

Definition name := string.
Definition path := list name.

(** ["a/b/c"] -> [["a";"b";"c"]] (case files and examples only). *)
Fixpoint pth_aux (s cur : string) : list string :=
  match s with
  | EmptyString => [cur]
  | String c r => if Ascii.eqb c "/"%char then cur :: pth_aux r ""
                  else pth_aux r (String.append cur (String c ""))
  end.
Definition pth (s : string) : path :=
  match s with EmptyString => [] | _ => pth_aux s "" end.

(** The words between double quotes of a Rust array literal source text. *)
Fixpoint quoted_items (s : string) (cur : option string) : list string :=
  match s with
  | EmptyString => []
  | String c r =>
      if Ascii.eqb c """"%char
      then match cur with
           | None => quoted_items r (Some "")
           | Some w => w :: quoted_items r None
           end
      else match cur with
           | None => quoted_items r None
           | Some w => quoted_items r (Some (String.append w (String c "")))
           end
  end.

(** Membership in RESERVED_DIR_NAMES (lib/src/local_working_copy.rs:820). The list [rn]
    is a parameter of the model; Base/WcNames.v instantiates it with the value scraped from
    the source on every run, and the theorems hold for every list. *)
Definition is_reserved (rn : list name) (n : name) : bool := mem String.eqb n rn.

Definition path_eqb : path -> path -> bool := list_eqb String.eqb.

(** RepoPath's Ord: component-wise, components as byte strings. *)
Fixpoint path_compare (p q : path) : comparison :=
  match p, q with
  | [], [] => Eq
  | [], _ => Lt
  | _, [] => Gt
  | x :: p', y :: q' =>
      match String.compare x y with
      | Eq => path_compare p' q'
      | c => c
      end
  end.
Definition path_ltb (p q : path) : bool :=
  match path_compare p q with Lt => true | _ => false end.

Fixpoint is_prefix (p q : path) : bool :=
  match p, q with
  | [], _ => true
  | x :: p', y :: q' => String.eqb x y && is_prefix p' q'
  | _ :: _, [] => false
  end.
Definition is_strict_prefix (p q : path) : bool := is_prefix p q && negb (path_eqb p q).

Definition parent (p : path) : path := removelast p.

Inductive entry :=
| EFile (c : string) (x : bool)
| ESym (t : string)
| EDir.

Definition entry_eqb (a b : entry) : bool :=
  match a, b with
  | EFile c x, EFile c' x' => String.eqb c c' && Bool.eqb x x'
  | ESym t, ESym t' => String.eqb t t'
  | EDir, EDir => true
  | _, _ => false
  end.

Definition is_leaf (o : option entry) : bool :=
  match o with Some (EFile _ _) | Some (ESym _) => true | _ => false end.

(** Association list; the first binding of a path counts. *)
Definition fs := list (path * entry).

Fixpoint lookup (f : fs) (p : path) : option entry :=
  match f with
  | [] => None
  | (q, e) :: r => if path_eqb q p then Some e else lookup r p
  end.
Definition fs_remove (f : fs) (p : path) : fs :=
  filter (fun qe => negb (path_eqb (fst qe) p)) f.
Definition fs_set (f : fs) (p : path) (e : entry) : fs := (p, e) :: fs_remove f p.

Definition has_child (f : fs) (p : path) : bool :=
  existsb (fun qe => match fst qe with
                     | [] => false
                     | _ => path_eqb (parent (fst qe)) p
                     end) f.

(** Same map (used to compare the model's disk with the real listing). *)
Definition fs_sub (a b : fs) : bool :=
  forallb (fun qe => option_eqb entry_eqb (lookup a (fst qe)) (lookup b (fst qe))) a.
Definition fs_eqb (a b : fs) : bool := fs_sub a b && fs_sub b a.

Definition is_dir (f : fs) (p : path) : bool :=
  match p with
  | [] => true
  | _ => match lookup f p with Some EDir => true | _ => false end
  end.

(** [base/x1], [base/x1/x2], ... are all real directories. *)
Fixpoint dirs_below (f : fs) (base rest : path) : bool :=
  match rest with
  | [] => true
  | x :: r => is_dir f (base ++ [x]) && dirs_below f (base ++ [x]) r
  end.
Definition all_dirs (f : fs) (p : path) : bool := dirs_below f [] p.

(** Every proper prefix of [p] is a real directory. The root itself is not a legal
    operand (see [p_remove_dir] for the one place the code can reach it). *)
Definition safe (f : fs) (p : path) : bool :=
  match p with [] => false | _ => all_dirs f (parent p) end.

(** Well-formed disk: whatever exists sits in a chain of real directories. *)
Definition wf_fs (f : fs) : Prop :=
  forall p e, lookup f p = Some e -> p <> [] /\ all_dirs f (parent p) = true.

(** [OLstatQ]: an lstat the code performs inside an error arm (after a failed create_dir /
    remove_file), where no add-only observation hook can be placed; same semantics as
    [OLstat], projected out when the trace is compared with the hooked real trace. *)
Inductive op := OCreateDir | ORemoveDir | OCreateNew | OWrite | ORemoveFile | OSymlink | OLstat | OLstatQ.
Record event := mkEv { ev_op : op; ev_path : path; ev_safe : bool }.

Record world := mkW { w_fs : fs; w_tr : list event }.
Definition log (w : world) (o : op) (p : path) (s : bool) : world :=
  mkW (w_fs w) (mkEv o p s :: w_tr w).
Definition with_fs (w : world) (f : fs) : world := mkW f (w_tr w).

Inductive pres := POk | PExists | PNotFound | PIsDir | PNotDir | PNotEmpty | PUnsafe.

(** fs::create_dir *)
Definition p_create_dir (w : world) (p : path) : pres * world :=
  let s := safe (w_fs w) p in
  let w := log w OCreateDir p s in
  if negb s then (PUnsafe, w)
  else match lookup (w_fs w) p with
       | None => (POk, with_fs w (fs_set (w_fs w) p EDir))
       | Some _ => (PExists, w)
       end.

(** fs::remove_dir. The pruning loop of the checkout walks up to the workspace root
    itself: that call is harmless exactly when the root is not empty (it always contains
    [.jj]); on an empty root it would remove the workspace and continue above it. *)
Definition p_remove_dir (w : world) (p : path) : pres * world :=
  match p with
  | [] =>
      let s := has_child (w_fs w) [] in
      let w := log w ORemoveDir p s in
      if s then (PNotEmpty, w) else (PUnsafe, w)
  | _ =>
      let s := safe (w_fs w) p in
      let w := log w ORemoveDir p s in
      if negb s then (PUnsafe, w)
      else match lookup (w_fs w) p with
           | None => (PNotFound, w)
           | Some EDir => if has_child (w_fs w) p then (PNotEmpty, w)
                          else (POk, with_fs w (fs_remove (w_fs w) p))
           | Some _ => (PNotDir, w)
           end
  end.

(** OpenOptions::new().write(true).create_new(true).open(): an empty non-executable file. *)
Definition p_create_new (w : world) (p : path) : pres * world :=
  let s := safe (w_fs w) p in
  let w := log w OCreateNew p s in
  if negb s then (PUnsafe, w)
  else match lookup (w_fs w) p with
       | None => (POk, with_fs w (fs_set (w_fs w) p (EFile "" false)))
       | Some _ => (PExists, w)
       end.

(** Writing the content through the open descriptor and set_permissions on the path that
    was just created. *)
Definition p_write (w : world) (p : path) (c : string) (x : bool) : pres * world :=
  let s := safe (w_fs w) p in
  let w := log w OWrite p s in
  if negb s then (PUnsafe, w)
  else match lookup (w_fs w) p with
       | Some (EFile _ _) => (POk, with_fs w (fs_set (w_fs w) p (EFile c x)))
       | Some EDir => (PIsDir, w)
       | Some _ => (PNotFound, w)
       | None => (PNotFound, w)
       end.

(** fs::remove_file *)
Definition p_remove_file (w : world) (p : path) : pres * world :=
  let s := safe (w_fs w) p in
  let w := log w ORemoveFile p s in
  if negb s then (PUnsafe, w)
  else match lookup (w_fs w) p with
       | None => (PNotFound, w)
       | Some EDir => (PIsDir, w)
       | Some _ => (POk, with_fs w (fs_remove (w_fs w) p))
       end.

(** std::os::unix::fs::symlink *)
Definition p_symlink (w : world) (p : path) (t : string) : pres * world :=
  let s := safe (w_fs w) p in
  let w := log w OSymlink p s in
  if negb s then (PUnsafe, w)
  else match lookup (w_fs w) p with
       | None => (POk, with_fs w (fs_set (w_fs w) p (ESym t)))
       | Some _ => (PExists, w)
       end.

Inductive lres := LUnsafe | LNone | LSome (e : entry).

(** Path::symlink_metadata / FileIdentity::from_symlink_path (lstat) *)
Definition p_lstat (w : world) (p : path) : lres * world :=
  let s := safe (w_fs w) p in
  let w := log w OLstat p s in
  if negb s then (LUnsafe, w)
  else match lookup (w_fs w) p with
       | None => (LNone, w)
       | Some e => (LSome e, w)
       end.

(** The same call at a place the observation hooks cannot reach. *)
Definition p_lstat_q (w : world) (p : path) : lres * world :=
  let s := safe (w_fs w) p in
  let w := log w OLstatQ p s in
  if negb s then (LUnsafe, w)
  else match lookup (w_fs w) p with
       | None => (LNone, w)
       | Some e => (LSome e, w)
       end.
