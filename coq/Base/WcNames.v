(** RESERVED_DIR_NAMES of lib/src/local_working_copy.rs:820, scraped from the source on
    every run (tools/tables/wcc.json), as the list the checkout model is run with. Kept in
    its own file so that only the case checkers depend on the generated tables. *)
From Verif Require Import Base.Prelude Base.FsC Gen.Tables.
Definition reserved_names : list name := quoted_items WC_RESERVED_DIR_NAMES_SRC None.
