(** C24 — definitions: the disk that holds exactly a tree plus untracked entries, the
    declarative snapshot, validity of a diff-entry order, the correspondence case (a
    sequence of real checkouts, a snapshot after the last one, and the same final tree
    checked out from scratch) and its checkers. Definitions only; the list of reserved
    names is a parameter, instantiated in Model/C24.v. *)
From Verif Require Export Base.Prelude Base.FsC Base.WcC.
Local Open Scope string_scope.
Local Open Scope list_scope.

(** The part of a tree inside the sparse patterns. *)
Definition restrict (m : path -> bool) (t : tree) : tree := filter (fun pv => m (fst pv)) t.

Definition keys (t : tree) : list path := map fst t.

Definition fs_below (u : fs) (q : path) : bool :=
  existsb (fun pe => is_strict_prefix q (fst pe)) u.

(** [materialize t] plus the untracked entries [u]: the tree's files and links, a
    directory wherever a tree path or an untracked entry lies below, otherwise whatever
    [u] has. *)
Definition expected (t : tree) (u : fs) (q : path) : option entry :=
  match q with
  | [] => None
  | _ => match leaf t q with
         | Some v => Some (materialize v)
         | None => if is_tree_in t q || fs_below u q then Some EDir else lookup u q
         end
  end.

Definition models (t : tree) (u : fs) (f : fs) : Prop := forall q, lookup f q = expected t u q.

Fixpoint prefixes (p : path) : list path :=
  match p with
  | [] => [[]]
  | x :: r => [] :: map (cons x) (prefixes r)
  end.

(** Every path at which either side can be defined. *)
Definition candidates (t : tree) (u f : fs) : list path :=
  map fst f ++ flat_map prefixes (keys t) ++ flat_map prefixes (map fst u).

Definition models_b (t : tree) (u f : fs) : bool :=
  forallb (fun q => option_eqb entry_eqb (lookup f q) (expected t u q)) (candidates t u f).

(** Untracked entries are "not in the way" of the tree paths [k]: none sits at or below a
    tree path; one above a tree path is a directory that holds, further down, an untracked
    entry off every tree path (so that it is never pruned). *)
Definition off_paths (k : list path) (w : path) : bool :=
  forallb (fun p => negb (is_prefix w p)) k.
Definition compat_b (u : fs) (k : list path) : bool :=
  forallb (fun qe =>
             let q := fst qe in
             forallb (fun p => negb (is_prefix p q)) k
             && (negb (existsb (fun p => is_strict_prefix q p) k)
                 || (match lookup u q with Some EDir => true | _ => false end
                     && existsb (fun we => is_strict_prefix q (fst we) && off_paths k (fst we)) u)))
          u.

Fixpoint nodup_paths (l : list path) : bool :=
  match l with
  | [] => true
  | p :: r => negb (mem path_eqb p r) && nodup_paths r
  end.

Section Reserved.
Variable rn : list name.

(** A tree that can be checked out: distinct non-empty paths of valid, non-reserved names,
    none a prefix of another. *)
Definition tree_ok_b (t : tree) : bool :=
  nodup_paths (keys t)
  && forallb (fun pv => match fst pv with [] => false | _ => true end
                        && forallb valid_name (fst pv) && negb (has_reserved rn (fst pv))) t
  && forallb (fun pv => forallb (fun qw => negb (is_strict_prefix (fst pv) (fst qw))) t) t.

End Reserved.

(** The declarative snapshot: what the disk holds at the tracked paths. *)
Definition snap (f : fs) (tracked : list path) : tree :=
  flat_map (fun p => match lookup f p with
                     | Some (EFile c x) => [(p, TFile c x)]
                     | Some (ESym t) => [(p, TSym t)]
                     | _ => []
                     end) tracked.

Definition tree_eqb (a b : tree) : bool :=
  list_eqb (pair_eqb path_eqb tval_eqb) a b.

(** Two trees as maps. *)
Definition tree_sub (a b : tree) : bool :=
  forallb (fun pv => option_tval_eqb (leaf a (fst pv)) (leaf b (fst pv))) a.
Definition tree_same (a b : tree) : bool := tree_sub a b && tree_sub b a.

Record step := mk_step {
  st_tree : tree;                    (* the tree checked out in this step *)
  st_res : result;                   (* what check_out returned *)
  st_trace : list (N * path);        (* the real file-system calls of the checkout, in order *)
  st_disk : fs;                      (* listing afterwards *)
  st_states : list (path * bool);    (* file states afterwards *)
}.

Record case := mk_case {
  c_disk0 : fs;              (* the workspace before the first checkout: untracked entries *)
  c_sparse : list path;
  c_steps : list step;       (* successive checkouts, starting from the empty tree *)
  c_snapshot : option tree;  (* tree returned by a snapshot right after the last checkout *)
  c_scratch : fs;            (* listing of a second workspace (same untracked entries, same
                                sparse patterns) after checking out the last tree directly *)
  c_real_only : list bool;   (* observations on the real code alone, outside the model:
                                conflicted trees and other EOL / exec-bit settings: a snapshot
                                right after each checkout returned the identical tree ids, and
                                the from-scratch workspace has the identical disk *)
}.

Definition last_tree (c : case) : tree :=
  match rev (c_steps c) with s :: _ => st_tree s | [] => [] end.
Definition last_disk (c : case) : fs :=
  match rev (c_steps c) with s :: _ => st_disk s | [] => c_disk0 c end.

Section Reserved2.
Variable rn : list name.

(** Property checkers on the real results: after every step the disk is exactly the tree
    (inside the sparse patterns) plus the untracked entries, nothing was skipped; the
    snapshot returned the tree checked out; the declarative snapshot of the real disk is
    that tree too; the from-scratch workspace has the same disk. *)
Definition step_ok (u : fs) (sparse : list path) (s : step) : bool :=
  let t := restrict (matches sparse) (st_tree s) in
  models_b t u (st_disk s)
  && match st_res s with ROk r => N.eqb (n_skipped r) 0 | _ => false end.

Definition okb (c : case) : bool :=
  forallb (step_ok (c_disk0 c) (c_sparse c)) (c_steps c)
  && option_eqb tree_same (c_snapshot c) (Some (last_tree c))
  && tree_eqb (snap (last_disk c) (keys (restrict (matches (c_sparse c)) (last_tree c))))
              (restrict (matches (c_sparse c)) (last_tree c))
  && fs_eqb (c_scratch c) (last_disk c)
  && forallb (fun b => b) (c_real_only c).

(** The hypotheses of the theorems, decided on the recorded inputs. *)
Definition pre_ok (c : case) : bool :=
  forallb (fun qe => match fst qe with [] => false | _ => all_dirs (c_disk0 c) (parent (fst qe)) end)
          (c_disk0 c)
  && existsb (fun qe => match fst qe with [x] => is_reserved rn x | _ => false end) (c_disk0 c)
  && forallb (fun s => tree_ok_b rn (st_tree s)) (c_steps c)
  && compat_b (c_disk0 c) (flat_map (fun s => keys (st_tree s)) (c_steps c)).

(** The model run along the same steps. *)
Fixpoint run_steps (f : fs) (w : wc) (steps : list step) : bool :=
  match steps with
  | [] => true
  | s :: r =>
      let '(o, w') := check_out rn f w (st_tree s) in
      result_eqb (o_res o) (st_res s) && fs_eqb (o_fs o) (st_disk s)
      && forallb ev_safe (o_trace o)
      && list_eqb (pair_eqb N.eqb path_eqb) (visible_trace (o_trace o)) (st_trace s)
      && states_eqb (o_states o) (st_states s)
      && run_steps (o_fs o) w' r
  end.

End Reserved2.

(** detail: 1 a step of the sequence, 2 the from-scratch workspace, 3 hypotheses *)
Definition check_case_rn (rn : list name) (c : case) : N :=
  let w0 := mkWc [] [] (c_sparse c) in
  let ok_steps := run_steps rn (c_disk0 c) w0 (c_steps c) in
  let o2 := fst (check_out rn (c_disk0 c) w0 (last_tree c)) in
  let ok_scratch := fs_eqb (o_fs o2) (c_scratch c) in
  let ok_pre := pre_ok rn c in
  let detail := (if negb ok_steps then 1 else if negb ok_scratch then 2 else 3)%N in
  verdict (ok_steps && ok_scratch && ok_pre) (okb c) false detail.
