(** C27 — definitions: the correspondence case (a tree checked out in full, then a series
    of set_sparse_patterns calls with disk edits outside the patterns in between, a real
    snapshot after each) and its checkers. Definitions only; the list of reserved names
    is a parameter, instantiated in Model/C27.v. *)
From Verif Require Export Base.Prelude Base.FsC Base.WcC Base.C24Chk Base.C25Chk.
Local Open Scope string_scope.
Local Open Scope list_scope.

(** The declarative snapshot under sparse patterns: tracked paths inside the patterns are
    read from the disk, tracked paths outside keep their value. *)
Definition snap_sparse (f : fs) (m : path -> bool) (t : tree) : tree :=
  flat_map (fun pv => if m (fst pv)
                      then match lookup f (fst pv) with
                           | Some (EFile c x) => [(fst pv, TFile c x)]
                           | Some (ESym s) => [(fst pv, TSym s)]
                           | _ => []
                           end
                      else [pv]) t.

Record sstep := mk_sstep {
  ss_tree : tree;                     (* the working copy's tree before the call *)
  ss_old : list path;                 (* sparse patterns before *)
  ss_new : list path;                 (* patterns passed to set_sparse_patterns *)
  ss_disk0 : fs;                      (* listing before the call (after the harness' edits) *)
  ss_states0 : list (path * bool);
  ss_clean : bool;                    (* no edit of this case is in the way of a tree path *)
  ss_res : result;
  ss_trace : list (N * path);         (* the real file-system calls of the call, in order *)
  ss_disk1 : fs;
  ss_states1 : list (path * bool);
  ss_tree_same : bool;                (* the working copy's tree id is unchanged *)
  ss_snapshot : option tree;          (* tree returned by a snapshot right afterwards *)
}.

(** A step of a session run inside ONE locked working copy (no reload between the steps):
    every step records the tree and the patterns the real object reported before it. *)
Inductive sess_step :=
| SeSparse (s : sstep) (recorded_after : list path)
    (* set_sparse_patterns + a snapshot right after; the patterns recorded afterwards *)
| SeSnap (t : tree) (sp : list path) (d : fs) (r : option tree)
    (* a snapshot (not starting to track new files) of the disk [d] *)
| SeCheckout (t : tree) (sp : list path) (d0 : fs) (t2 : tree) (res : result)
             (tr : list (N * path)) (d1 : fs).

Record case := mk_case {
  c_untracked : fs;                   (* the workspace before the tree was checked out *)
  c_steps : list sstep;
  c_session : list sess_step;
}.

(** Every file or link that appeared, disappeared or changed is inside the patterns. *)
Definition inside_b (m : path -> bool) (d0 d1 : fs) : bool :=
  forallb (fun qe => option_eqb entry_eqb (lookup d0 (fst qe)) (lookup d1 (fst qe))
                     || negb (is_leaf (lookup d0 (fst qe)) || is_leaf (lookup d1 (fst qe)))
                     || m (fst qe)) (d0 ++ d1).

(** The declarative snapshot that does not start tracking new files. *)
Definition snap_model (d : fs) (sp : list path) (t : tree) : tree := snap_sparse d (matches sp) t.

(** Tracked paths outside the patterns keep their value in the snapshot. *)
Definition outside_kept (m : path -> bool) (t : tree) (snapshot : option tree) : bool :=
  match snapshot with
  | Some s => forallb (fun pv => m (fst pv) || option_tval_eqb (leaf s (fst pv)) (Some (snd pv))) t
  | None => false
  end.

Definition count_in (m : path -> bool) (t : tree) : N := N.of_nat (length (restrict m t)).

Section Reserved.
Variable rn : list name.

(** Property checkers on the real results. Always: the tree is unchanged, a snapshot
    returns it unchanged (nothing outside the patterns is reported deleted), no file is
    counted as updated, untouched / confined hold for the two diffs. On clean steps: the
    disk is exactly the tree inside the new patterns plus the untracked entries, and the
    statistics are exactly the number of tree files entering and leaving the patterns. *)
Definition sstep_ok (u : fs) (s : sstep) : bool :=
  let t := ss_tree s in
  let d := diff_fs (matches_diff (ss_new s) (ss_old s)) [] t
           ++ diff_fs (matches_diff (ss_old s) (ss_new s)) t [] in
  ss_tree_same s
  && outside_kept (matches (ss_new s)) t (ss_snapshot s)
  && (negb (ss_clean s) || option_eqb tree_same (ss_snapshot s) (Some t))
  && untouched_b d (ss_disk0 s) (ss_disk1 s)
  && confined_b d (ss_disk0 s) (ss_disk1 s)
  && match ss_res s with
     | ROk r => N.eqb (n_updated r) 0
                && (negb (ss_clean s)
                    || (models_b (restrict (matches (ss_new s)) t) u (ss_disk1 s)
                        && N.eqb (n_skipped r) 0
                        && N.eqb (n_added r) (count_in (matches_diff (ss_new s) (ss_old s)) t)
                        && N.eqb (n_removed r) (count_in (matches_diff (ss_old s) (ss_new s)) t)))
     | RPanic => false
     | _ => negb (ss_clean s)
     end.

(** Inside a session: set_sparse_patterns as above and the new patterns are the recorded
    ones; a snapshot keeps every tracked path outside the CURRENT patterns; a checkout
    changes files only inside the CURRENT patterns and only what the diff owns. *)
Definition sess_ok (u : fs) (st : sess_step) : bool :=
  match st with
  | SeSparse s after =>
      sstep_ok u s
      && list_eqb path_eqb after (match ss_res s with ROk _ => ss_new s | _ => ss_old s end)
  | SeSnap t sp d r => outside_kept (matches sp) t r
  | SeCheckout t sp d0 t2 res tr d1 =>
      let dd := diff_fs (matches sp) t t2 in
      untouched_b dd d0 d1 && confined_b dd d0 d1 && inside_b (matches sp) d0 d1
  end.

Definition okb (c : case) : bool :=
  forallb (sstep_ok (c_untracked c)) (c_steps c) && forallb (sess_ok (c_untracked c)) (c_session c).

(** Hypotheses of the exact-delta theorem on clean steps. *)
Definition pre_ok (c : case) : bool :=
  forallb (fun qe => match fst qe with [] => false | _ => all_dirs (c_untracked c) (parent (fst qe)) end)
             (c_untracked c)
  && existsb (fun qe => match fst qe with [x] => is_reserved rn x | _ => false end) (c_untracked c)
  && forallb (fun s => negb (ss_clean s)
                       || (tree_ok_b rn (ss_tree s)
                           && compat_b (c_untracked c) (keys (ss_tree s))
                           && models_b (restrict (matches (ss_old s)) (ss_tree s)) (c_untracked c)
                                       (ss_disk0 s)))
             (c_steps c).

(** The model on one step ([with_states] = false inside a session, where the file states
    of the locked object are not observable). *)
Definition sstep_corr_gen (with_states : bool) (s : sstep) : bool :=
  let '(o, w') := set_sparse rn (ss_disk0 s) (mkWc (ss_tree s) (ss_states0 s) (ss_old s)) (ss_new s) in
  result_eqb (o_res o) (ss_res s) && fs_eqb (o_fs o) (ss_disk1 s)
  && (negb with_states || states_eqb (o_states o) (ss_states1 s)) && forallb ev_safe (o_trace o)
  && list_eqb (pair_eqb N.eqb path_eqb) (visible_trace (o_trace o)) (ss_trace s).
Definition sstep_corr : sstep -> bool := sstep_corr_gen true.

(** The model on a session step: it always uses the patterns that are current. *)
Definition sess_corr (st : sess_step) : bool :=
  match st with
  | SeSparse s after => sstep_corr_gen false s
  | SeSnap t sp d r => option_eqb tree_same r (Some (snap_model d sp t))
  | SeCheckout t sp d0 t2 res tr d1 =>
      let '(o, w') := check_out rn d0 (mkWc t [] sp) t2 in
      result_eqb (o_res o) res && fs_eqb (o_fs o) d1 && forallb ev_safe (o_trace o)
      && list_eqb (pair_eqb N.eqb path_eqb) (visible_trace (o_trace o)) tr
  end.

(** Known-finding class "sparse-removal-skipped-assert": the removal pass of
    set_sparse_patterns skips a path (a parent component of a file leaving the patterns is
    a file or link on disk, or the path itself is a directory), so
    assert_eq!(removed_stats.skipped_files, 0) panics after the disk was partly updated. *)
Definition removal_skipped (s : sstep) : bool :=
  let t := ss_tree s in
  let o1 := run_update rn (ss_disk0 s) (ss_states0 s)
                       (diff_fs (matches_diff (ss_new s) (ss_old s)) [] t) in
  match o_res o1 with
  | ROk _ =>
      let o2 := run_update rn (o_fs o1) (o_states o1)
                           (diff_fs (matches_diff (ss_old s) (ss_new s)) t []) in
      match o_res o2 with
      | ROk s2 => negb (N.eqb (n_skipped s2) 0)
      | _ => false
      end
  | _ => false
  end.
Definition known_class (c : case) : bool :=
  existsb (fun s => result_eqb (ss_res s) RPanic && removal_skipped s)
          (c_steps c ++ flat_map (fun st => match st with SeSparse s _ => [s] | _ => [] end) (c_session c)).

End Reserved.

(** detail: 1 a step disagrees with the model, 2 hypotheses *)
Definition check_case_rn (rn : list name) (c : case) : N :=
  let ok_steps := forallb (sstep_corr rn) (c_steps c) && forallb (sess_corr rn) (c_session c) in
  let ok_pre := pre_ok rn c in
  verdict (ok_steps && ok_pre) (okb c) (known_class rn c) (if negb ok_steps then 1 else 2)%N.
