(** Shared executable helpers for all models. Definitions only (no proofs), so that
    correspondence runs keep working when a proof elsewhere breaks. *)
From Coq Require Export String Ascii.
From Coq Require Export NArith ZArith Bool List.
Export ListNotations.

(** Verdict codes returned by every [Cxx.check_case]:
    0 = fine; bit 0 = model and implementation disagree (correspondence);
    bit 1 = the proved property checker rejects the implementation's output
    (concrete failing input); bit 2 = the case lies in a known-finding class;
    code / 8 = free detail number. *)
Definition verdict (corr_ok prop_ok known : bool) (detail : N) : N :=
  ((if corr_ok then 0 else 1) + (if prop_ok then 0 else 2) +
   (if known then 4 else 0) + 8 * (if corr_ok && prop_ok then 0 else detail))%N.

Definition check_chunk {A} (f : A -> N) (l : list (N * A)) : list (N * N) :=
  filter (fun p => negb (N.eqb (snd p) 0))
         (map (fun p => (fst p, f (snd p))) l).

(** Hex strings to byte lists ([list N], every element < 256). *)
Definition hexval (c : ascii) : N :=
  let n := N_of_ascii c in
  if (48 <=? n)%N && (n <=? 57)%N then n - 48
  else if (97 <=? n)%N && (n <=? 102)%N then n - 87
  else if (65 <=? n)%N && (n <=? 70)%N then n - 55 else 0.

Fixpoint hex (s : string) : list N :=
  match s with
  | String a (String b r) => (16 * hexval a + hexval b)%N :: hex r
  | _ => []
  end.

Fixpoint list_eqb {A} (eqb : A -> A -> bool) (l1 l2 : list A) : bool :=
  match l1, l2 with
  | [], [] => true
  | x :: xs, y :: ys => eqb x y && list_eqb eqb xs ys
  | _, _ => false
  end.

Definition option_eqb {A} (eqb : A -> A -> bool) (o1 o2 : option A) : bool :=
  match o1, o2 with
  | None, None => true
  | Some x, Some y => eqb x y
  | _, _ => false
  end.

Definition pair_eqb {A B} (ea : A -> A -> bool) (eb : B -> B -> bool)
  (p q : A * B) : bool := ea (fst p) (fst q) && eb (snd p) (snd q).

Definition bytes := list N.
Definition bytes_eqb : bytes -> bytes -> bool := list_eqb N.eqb.

Fixpoint set_nth {A} (n : nat) (x : A) (l : list A) : list A :=
  match l, n with
  | [], _ => []
  | _ :: t, O => x :: t
  | h :: t, S n' => h :: set_nth n' x t
  end.

Definition mem {A} (eqb : A -> A -> bool) (x : A) (l : list A) : bool :=
  existsb (eqb x) l.

Fixpoint count {A} (eqb : A -> A -> bool) (x : A) (l : list A) : Z :=
  match l with
  | [] => 0%Z
  | y :: t => ((if eqb y x then 1 else 0) + count eqb x t)%Z
  end.
