(** File-system model for the SNAPSHOT side of the working copy (C23, C28): paths as lists of
    component names, a directory tree as the snapshot's read_dir / symlink_metadata see it.
    Definitions only. *)
From Verif Require Import Base.Prelude.

Definition path := list string.

Definition path_eqb : path -> path -> bool := list_eqb String.eqb.

(** [is_prefix p q]: every component of [p], in order, starts [q] (RepoPath::starts_with). *)
Fixpoint is_prefix (p q : path) : bool :=
  match p, q with
  | [], _ => true
  | a :: p', b :: q' => String.eqb a b && is_prefix p' q'
  | _ :: _, [] => false
  end.

(** "a/b/c" -> ["a"; "b"; "c"], "" -> [] (the root). Used by case terms. *)
Fixpoint psplit (s cur : string) : path :=
  match s with
  | EmptyString => match cur with EmptyString => [] | _ => [cur] end
  | String ch r =>
      if Ascii.eqb ch "/"%char then cur :: psplit r EmptyString
      else psplit r (cur ++ String ch EmptyString)
  end.
Definition P (s : string) : path := psplit s EmptyString.

(** What is on disk. File content and symlink target are identified by numbers; [size] is
    what metadata.len() reports. [DSpecial]: socket, fifo, device. *)
Inductive dnode :=
| DFile (content : N) (exec : bool) (size : N)
| DSymlink (target : N) (size : N)
| DSpecial
| DDir (entries : list (string * dnode)).

(** Entry constructor for case terms (gives the name argument string scope). *)
Definition E (name : string) (n : dnode) : string * dnode := (name, n).

Fixpoint find_entry (nm : string) (es : list (string * dnode)) : option dnode :=
  match es with
  | [] => None
  | (k, n) :: r => if String.eqb k nm then Some n else find_entry nm r
  end.

(** Plain lookup (no symlink following): what symlink_metadata finds at an absolute path. *)
Fixpoint dlookup (n : dnode) (q : path) : option dnode :=
  match q with
  | [] => Some n
  | nm :: q' =>
      match n with
      | DDir es =>
          match find_entry nm es with
          | Some ch => dlookup ch q'
          | None => None
          end
      | _ => None
      end
  end.

(** symlink_metadata at an absolute path: found / ENOENT / ENOTDIR. A symlink in the middle of
    the path is taken to dangle (ENOENT); the generators only create dangling symlinks. *)
Inductive stat_res := SFound (n : dnode) | SNotFound | SNotDir.
Fixpoint dstat (n : dnode) (q : path) : stat_res :=
  match q with
  | [] => SFound n
  | nm :: q' =>
      match n with
      | DDir es =>
          match find_entry nm es with
          | Some ch => dstat ch q'
          | None => SNotFound
          end
      | DSymlink _ _ => SNotFound
      | _ => SNotDir
      end
  end.

Definition is_dir (n : dnode) : bool := match n with DDir _ => true | _ => false end.

Definition node_size (n : dnode) : N :=
  match n with DFile _ _ s => s | DSymlink _ s => s | _ => 0%N end.

(** Names are unique in every directory, and never empty. *)
Fixpoint names_unique (l : list string) : bool :=
  match l with
  | [] => true
  | a :: r => negb (mem String.eqb a r) && names_unique r
  end.

Fixpoint wf_node (n : dnode) : bool :=
  match n with
  | DDir es =>
      names_unique (map fst es) && negb (mem String.eqb EmptyString (map fst es)) &&
      (fix all (l : list (string * dnode)) : bool :=
         match l with [] => true | e :: r => wf_node (snd e) && all r end) es
  | _ => true
  end.

(** Association-list lookup keyed by paths. *)
Fixpoint plookup {A} (p : path) (l : list (path * A)) : option A :=
  match l with
  | [] => None
  | (k, v) :: r => if path_eqb k p then Some v else plookup p r
  end.

Definition pmem (p : path) (l : list path) : bool := mem path_eqb p l.

Fixpoint paths_unique (l : list path) : bool :=
  match l with
  | [] => true
  | a :: r => negb (pmem a r) && paths_unique r
  end.

(** PrefixMatcher (lib/src/matchers.rs:201-220) over a list of prefix paths. *)
Definition prefix_matches (pats : list path) (p : path) : bool :=
  existsb (fun pat => is_prefix pat p) pats.
(** visit(dir).is_nothing(): no pattern is an ancestor-or-self of [dir] and [dir] is not an
    ancestor of any pattern. *)
Definition prefix_visit_nothing (pats : list path) (dir : path) : bool :=
  negb (existsb (fun pat => is_prefix pat dir || is_prefix dir pat) pats).
